#!/venv/bin/python
"""Single entry point:  check.py <Cxx> [--tier quick|thorough] [--replay FILE] [--shards N] [--only sub,sub]

exit 0  property held on everything explored (KNOWN-FINDING lines may be printed)
exit 1  at least one violation not listed in KNOWN_FINDINGS.txt: prints  VIOLATION property=<id> replay=<path>
exit 2  harness error / watchdog (never prints VIOLATION)
"""
import argparse
import glob
import importlib
import json
import os
import subprocess
import sys
import tempfile
import time

VERIF = os.path.dirname(os.path.abspath(__file__))
REPO = os.path.abspath(os.environ.get('REPO', '/repo'))
# evidence and replay files describe /repo itself; a trial against another tree (REPO=<scratch worktree with a seeded
# change>) writes them to a scratch directory instead, so that /verif/evidence is never produced from anything but /repo
OUT = VERIF if REPO == '/repo' else os.environ.get('VERIF_OUT', os.path.join('/tmp', 'verif-trial-' + os.path.basename(REPO)))


def find_module(pid):
    hits = glob.glob(os.path.join(VERIF, 'props', pid.lower() + '_*.py'))
    if not hits:
        raise SystemExit('no module for ' + pid)
    return 'props.' + os.path.basename(hits[0])[:-3]


def setup_path():
    sys.path.insert(0, VERIF)
    sys.path.insert(0, REPO)
    import cflib
    assert os.path.abspath(cflib.__file__).startswith(REPO + os.sep), cflib.__file__
    import logging
    logging.disable(logging.CRITICAL)


def child_main(args):
    setup_path()
    from vlib import runner
    mod = importlib.import_module(find_module(args.property))
    only = set(args.only.split(',')) if args.only else None
    res = runner.run_child(mod, args.tier, args.seed, args.shard, args.shards, only)
    with open(args.out, 'w') as f:
        json.dump(res, f, default=repr)
    sys.stdout.flush()
    os._exit(0)


def main():
    ap = argparse.ArgumentParser()
    ap.add_argument('property')
    ap.add_argument('--tier', default=os.environ.get('VERIF_TIER', 'quick'), choices=['quick', 'thorough'])
    ap.add_argument('--replay')
    ap.add_argument('--shards', type=int, default=0)
    ap.add_argument('--shard', type=int, default=-1)
    ap.add_argument('--out')
    ap.add_argument('--only')
    ap.add_argument('--seed', type=int, default=int(os.environ.get('VERIF_SEED', '1') or 1))
    args = ap.parse_args()
    pid = args.property.upper()
    args.property = pid

    if os.environ.get('PYTHONHASHSEED') != '0':
        env = dict(os.environ, PYTHONHASHSEED='0')
        os.execve(sys.executable, [sys.executable] + sys.argv, env)

    if args.shard >= 0:
        return child_main(args)

    setup_path()
    from vlib import runner
    mod = importlib.import_module(find_module(pid))

    if args.replay:
        try:
            unknown, res = runner.replay(mod, args.replay)
        except Exception:
            import traceback
            traceback.print_exc()
            os._exit(2)
        for sig, n in res.known_hits.items():
            print('KNOWN-FINDING: property=%s key=%s' % (pid, sig))
        if unknown:
            for sig, msg in unknown:
                print('  violation %s: %s' % (sig, msg))
            print('VIOLATION property=%s replay=%s' % (pid, args.replay))
            sys.stdout.flush()
            os._exit(1)
        print('replay held')
        sys.stdout.flush()
        os._exit(0)

    t0 = time.time()
    nshards = args.shards or getattr(mod, 'SHARDS', {'quick': 4, 'thorough': 16})[args.tier]
    tmpd = tempfile.mkdtemp(prefix='verif-' + pid + '-')
    procs = []
    for k in range(nshards):
        out = os.path.join(tmpd, 'shard%d.json' % k)
        cmd = [sys.executable, os.path.abspath(__file__), pid, '--tier', args.tier, '--seed', str(args.seed),
               '--shard', str(k), '--shards', str(nshards), '--out', out]
        if args.only:
            cmd += ['--only', args.only]
        log = open(os.path.join(tmpd, 'shard%d.log' % k), 'w')
        procs.append((k, out, subprocess.Popen(cmd, stdout=log, stderr=subprocess.STDOUT, cwd=VERIF), log))
    watchdog = getattr(mod, 'WATCHDOG', {'quick': 900, 'thorough': 6 * 3600})[args.tier]
    harness_errors = []
    parts = []
    for k, out, p, log in procs:
        try:
            p.wait(timeout=max(1, watchdog - (time.time() - t0)))
        except subprocess.TimeoutExpired:
            p.kill()
            harness_errors.append('shard %d: watchdog (%ds) expired' % (k, watchdog))
            continue
        log.close()
        if p.returncode != 0 or not os.path.exists(out):
            harness_errors.append('shard %d exited %s:\n%s' % (k, p.returncode, open(log.name).read()[-3000:]))
            continue
        parts.append(json.load(open(out)))
    import shutil
    # merge
    merged = {}
    order = []
    for part in parts:
        for r in part:
            m = merged.get(r['name'])
            if m is None:
                m = merged[r['name']] = {'evaluations': 0, 'fps': set(), 'nt_count': 0, 'features': {}, 'samples': [],
                                         'known_hits': {}, 'violations': {}, 'exhaustive': True, 'wall': 0.0}
                order.append(r['name'])
            m['evaluations'] += r['evaluations']
            m['fps'].update(r['nontrivial_fps'])
            m['nt_count'] += r['nontrivial_count']
            for f, c in r['features'].items():
                m['features'][f] = m['features'].get(f, 0) + c
            if len(m['samples']) < 3:
                m['samples'].extend(r['samples'][:2])
            for s, c in r['known_hits'].items():
                m['known_hits'][s] = m['known_hits'].get(s, 0) + c
            for s, v in r['violations'].items():
                old = m['violations'].get(s)
                if old is None or len(json.dumps(v['case'], default=repr)) < len(json.dumps(old['case'], default=repr)):
                    m['violations'][s] = v
            m['exhaustive'] = m['exhaustive'] and r['exhaustive']
            m['wall'] = max(m['wall'], r['wall'])
            for e in r['errors']:
                harness_errors.append('sub %s: %s' % (r['name'], e))
    shutil.rmtree(tmpd, ignore_errors=True)

    known = runner.load_known(pid)
    viol_lines = []
    os.makedirs(os.path.join(OUT, 'replays', pid), exist_ok=True)
    for name in order:
        for sig, v in merged[name]['violations'].items():
            fn = os.path.join('replays', pid, '%s-%s.json' % (name, runner.fp_of(sig)[:8]))
            with open(os.path.join(OUT, fn), 'w') as f:
                json.dump({'property': pid, 'sub': name, 'signature': sig, 'message': v['msg'], 'case': v['case']},
                          f, indent=1, default=repr)
            viol_lines.append((sig, v['msg'], fn))
    known_seen = {}
    for name in order:
        for s, c in merged[name]['known_hits'].items():
            known_seen[s] = known_seen.get(s, 0) + c
    if hasattr(mod, 'finalize'):
        for sig, msg, case in mod.finalize({name: {'evaluations': merged[name]['evaluations'], 'known_hits': merged[name]['known_hits']} for name in order}):
            if sig in known:
                continue
            fn = os.path.join('replays', pid, 'aggregate-%s.json' % runner.fp_of(sig)[:8])
            with open(os.path.join(OUT, fn), 'w') as f:
                json.dump({'property': pid, 'sub': 'aggregate', 'signature': sig, 'message': msg, 'case': case}, f, indent=1)
            viol_lines.append((sig, msg, fn))

    evaluations = sum(m['evaluations'] for m in merged.values())
    distinct = sum(len(m['fps']) + m['nt_count'] for m in merged.values())
    samples = []
    for name in order:
        for s in merged[name]['samples'][:2]:
            samples.append({'sub': name, 'case': s})
    ev = {
        'property_id': pid, 'tier': args.tier, 'seed': args.seed, 'level': mod.LEVEL,
        'coverage': {
            'evaluations': evaluations, 'distinct_nontrivial': distinct, 'rule': mod.RULE,
            'samples': samples[:12],
            'exhaustive': bool(merged) and all(m['exhaustive'] for m in merged.values()),
            'subchecks': {name: {'evaluations': merged[name]['evaluations'],
                                 'distinct_nontrivial': len(merged[name]['fps']) + merged[name]['nt_count'],
                                 'exhaustive_enumeration': merged[name]['exhaustive'],
                                 'classes': dict(sorted(merged[name]['features'].items())),
                                 'wall_s': round(merged[name]['wall'], 2)} for name in order},
            'known_findings': known_seen,
            'shards': nshards,
        },
        'assumptions': list(getattr(mod, 'ASSUMPTIONS', [])),
        'wall_s': round(time.time() - t0, 2),
        'violations': len(viol_lines),
    }
    os.makedirs(os.path.join(OUT, 'evidence'), exist_ok=True)
    with open(os.path.join(OUT, 'evidence', pid + '.json'), 'w') as f:
        json.dump(ev, f, indent=1, default=repr)

    for s, c in sorted(known_seen.items()):
        print('KNOWN-FINDING: property=%s key=%s hits=%d %s' % (pid, s, c, known.get(s, '')))
    print('%s %s seed=%d: %d cases, %d distinct non-trivial, %.1fs' % (pid, args.tier, args.seed, evaluations, distinct,
                                                                     time.time() - t0))
    if viol_lines:
        for sig, msg, fn in viol_lines:
            print('  violation %s: %s' % (sig, msg[:300]))
            print('VIOLATION property=%s replay=%s' % (pid, fn if OUT == VERIF else os.path.join(OUT, fn)))
        sys.stdout.flush()
        os._exit(1)
    if harness_errors:
        print('HARNESS-ERROR (inconclusive):')
        for e in harness_errors[:5]:
            print(e)
        sys.stdout.flush()
        os._exit(2)
    sys.stdout.flush()
    os._exit(0)


if __name__ == '__main__':
    main()
