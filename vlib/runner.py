"""Runner: seeds, Hypothesis settings, root-cause bucketing, replay files, evidence, exit codes.

A property module (props/cNN_*.py) exposes

    PROPERTY = "Cxx"; LEVEL = "exploration" | "fault_enumeration"
    RULE = "<how cases are generated and what makes one non-trivial>"
    ASSUMPTIONS = [...]
    def subchecks(tier) -> list[Sub]

A Sub is either Hypothesis-driven (strategy -> JSON-serialisable case) or an enumeration
(cases(tier) -> iterable of cases).  run_case(case) is a pure function of `case` and of the
code under test and returns an Outcome.  Nothing here consults a wall clock for a verdict.
"""
import faulthandler
import errno
import hashlib
import json
import os
import sys
import time
import traceback

CASE_WATCHDOG = int(os.environ.get('VERIF_CASE_WATCHDOG', '240'))
VERIF = os.path.dirname(os.path.dirname(os.path.abspath(__file__)))
REPO = os.path.abspath(os.environ.get('REPO', '/repo'))


class Outcome:
    __slots__ = ('nontrivial', 'features', 'violations')

    def __init__(self, nontrivial=False, features=(), violations=()):
        self.nontrivial = bool(nontrivial)
        self.features = list(features)
        self.violations = list(violations)  # list of (signature:str, message:str)

    def fail(self, sig, msg=''):
        self.violations.append((str(sig), str(msg)))

    def feat(self, *names):
        self.features.extend(names)


class Sub:
    def __init__(self, name, run_case, strategy=None, cases=None, examples=None,
                 distinct_by_construction=False, shardable=True, fingerprint=None):
        """examples: dict tier -> total number of Hypothesis examples (split over shards)."""
        self.name = name
        self.run_case = run_case
        self.strategy = strategy
        self.cases = cases
        self.examples = examples or {'quick': 100, 'thorough': 2000}
        self.distinct_by_construction = distinct_by_construction
        self.shardable = shardable
        self.fingerprint = fingerprint


class CaseViolation(Exception):
    pass


def fp_of(case):
    return hashlib.sha1(json.dumps(case, sort_keys=True, default=repr).encode()).hexdigest()[:16]


def _frames(tb):
    out = []
    while tb is not None:
        out.append((os.path.abspath(tb.tb_frame.f_code.co_filename), tb.tb_frame.f_code.co_name, tb.tb_lineno))
        tb = tb.tb_next
    return out


def classify_exception(exc):
    """Return ('sut', sig) if the innermost frame that belongs to /repo or /verif is a /repo frame."""
    # the machine running out of threads, memory or file descriptors says nothing about the library
    if isinstance(exc, MemoryError) or (isinstance(exc, RuntimeError) and "can't start new thread" in str(exc)) or (
            isinstance(exc, OSError) and getattr(exc, 'errno', None) in (errno.EMFILE, errno.ENFILE, errno.ENOMEM, errno.EAGAIN)):
        return 'harness', None
    frames = _frames(exc.__traceback__)
    for fn, func, _ in reversed(frames):
        if fn.startswith(REPO + os.sep):
            rel = os.path.relpath(fn, REPO)
            return 'sut', 'exc:%s@%s:%s' % (type(exc).__name__, rel, func)
        if fn.startswith(VERIF + os.sep):
            return 'harness', None
    return 'harness', None


def sut_call(out, label, fn, *a, **kw):
    """Call code under test; an exception becomes a violation (label + type + site). Returns (ok, value)."""
    try:
        return True, fn(*a, **kw)
    except Exception as e:  # noqa
        kind, sig = classify_exception(e)
        if kind == 'sut' or True:
            out.fail('%s:%s' % (label, sig or ('exc:' + type(e).__name__)), repr(e)[:300])
        return False, e


def load_known(pid):
    known = {}
    path = os.path.join(VERIF, 'KNOWN_FINDINGS.txt')
    if os.path.exists(path):
        for line in open(path):
            line = line.strip()
            if not line.startswith('known:'):
                continue
            parts = line[len('known:'):].split()
            kv = dict(p.split('=', 1) for p in parts[:2] if '=' in p)
            if kv.get('property') == pid and 'key' in kv:
                known[kv['key']] = ' '.join(parts[2:])
    return known


class SubResult:
    def __init__(self, name):
        self.name = name
        self.evaluations = 0
        self.nontrivial_fps = set()
        self.nontrivial_count = 0
        self.features = {}
        self.samples = []
        self.known_hits = {}
        self.violations = {}   # sig -> dict(case,msg)
        self.exhaustive = False
        self.errors = []
        self.wall = 0.0

    def to_json(self):
        return {'name': self.name, 'evaluations': self.evaluations,
                'nontrivial_fps': sorted(self.nontrivial_fps), 'nontrivial_count': self.nontrivial_count,
                'features': self.features, 'samples': self.samples, 'known_hits': self.known_hits,
                'violations': self.violations, 'exhaustive': self.exhaustive, 'errors': self.errors,
                'wall': self.wall}


class _Recorder:
    """Shared per-sub bookkeeping for both drivers."""

    def __init__(self, sub, known, res, suppressed):
        self.sub, self.known, self.res, self.suppressed = sub, known, res, suppressed
        self.first_fail_t = None
        self.fails = []  # (size, case, sig, msg)

    def observe(self, case, count=True):
        """Run one case. Returns list of unknown (sig,msg)."""
        res = self.res
        # harness watchdog (never a verdict): a single case that needs more than CASE_WATCHDOG real seconds dumps all
        # thread stacks and ends this shard; the parent then reports a harness error (exit 2)
        faulthandler.cancel_dump_traceback_later()
        faulthandler.dump_traceback_later(CASE_WATCHDOG, exit=True)
        try:
            out = self.sub.run_case(case)
        except CaseViolation:
            raise
        except Exception as e:  # noqa
            kind, sig = classify_exception(e)
            if kind == 'sut':
                out = Outcome(True, ['escaped-exception'], [(sig, repr(e)[:300])])
            else:
                raise
        if count:
            res.evaluations += 1
            for f in out.features:
                res.features[f] = res.features.get(f, 0) + 1
            if out.nontrivial:
                if self.sub.distinct_by_construction:
                    res.nontrivial_count += 1
                else:
                    res.nontrivial_fps.add(self.sub.fingerprint(case) if self.sub.fingerprint else fp_of(case))
            if len(res.samples) < 4 and (out.nontrivial or res.evaluations % 7 == 3):
                res.samples.append(_abbrev(case))
        unknown = []
        for sig, msg in out.violations:
            if sig in self.known:
                if count:
                    res.known_hits[sig] = res.known_hits.get(sig, 0) + 1
            elif sig in self.suppressed:
                pass
            else:
                unknown.append((sig, msg))
        return unknown


def _abbrev(case, limit=1500):
    s = json.dumps(case, default=repr)
    if len(s) <= limit:
        return case
    return {'abbreviated': s[:limit] + '...'}


def run_sub_hyp(sub, tier, seed, shard, nshards, known, shrink_budget):
    import hypothesis
    from hypothesis import given, settings, HealthCheck, Phase
    res = SubResult(sub.name)
    total = sub.examples.get(tier, 100)
    n = max(1, total // nshards) if sub.shardable else (total if shard == 0 else 0)
    if n == 0:
        return res
    suppressed = set()
    t0 = time.time()
    for rnd in range(3 if tier == 'quick' else 5):
        rec = _Recorder(sub, known, res, suppressed)
        state = {'first_fail': None, 'best': None, 'shrinking_done': False}

        def body(case):
            if state['shrinking_done']:
                return
            if state['first_fail'] is not None and time.time() - state['first_fail'] > shrink_budget:
                state['shrinking_done'] = True
                return
            unknown = rec.observe(case, count=(state['first_fail'] is None))
            if unknown:
                if state['first_fail'] is None:
                    state['first_fail'] = time.time()
                    state['sig'] = unknown[0][0]
                # keep shrinking on the same root cause only
                for sig, msg in unknown:
                    if sig == state['sig']:
                        size = len(json.dumps(case, default=repr))
                        if state['best'] is None or size <= state['best'][0]:
                            state['best'] = (size, case, sig, msg)
                        raise CaseViolation(sig)

        test = given(sub.strategy)(body)
        test = hypothesis.seed(seed * 1000 + shard * 7 + rnd)(test)
        test = settings(max_examples=n, database=None, deadline=None, derandomize=False,
                        report_multiple_bugs=False, print_blob=False,
                        suppress_health_check=list(HealthCheck),
                        phases=[Phase.explicit, Phase.generate, Phase.shrink])(test)
        try:
            test()
        except CaseViolation:
            pass
        except BaseException as e:  # Flaky etc. after we stopped shrinking, or harness errors
            if state['best'] is None:
                if isinstance(e, KeyboardInterrupt):
                    raise
                res.errors.append(''.join(traceback.format_exception(type(e), e, e.__traceback__))[-4000:])
                break
        if state['best'] is None:
            break
        _, case, sig, msg = state['best']
        res.violations[sig] = {'case': case, 'msg': msg}
        suppressed.add(sig)
        n = max(20, n // 2)
    res.wall = time.time() - t0
    return res


def run_sub_enum(sub, tier, seed, shard, nshards, known):
    res = SubResult(sub.name)
    t0 = time.time()
    rec = _Recorder(sub, known, res, set())
    try:
        for i, case in enumerate(sub.cases(tier)):
            if sub.shardable:
                if i % nshards != shard:
                    continue
            elif shard != 0:
                break
            for sig, msg in rec.observe(case):
                if sig not in res.violations:
                    res.violations[sig] = {'case': case, 'msg': msg}
        res.exhaustive = True
    except Exception as e:  # noqa
        res.errors.append(''.join(traceback.format_exception(type(e), e, e.__traceback__))[-4000:])
    res.wall = time.time() - t0
    return res


def regression_sub(mod, subs):
    """Replay tier: the minimal failing cases of every repaired defect (and of corrected false alarms), committed under
    regressions/<property>/*.json (same format as replays/). Each is run through the sub-check it came from, on every run."""
    import glob
    d = os.path.join(os.path.dirname(os.path.dirname(os.path.abspath(__file__))), 'regressions', mod.PROPERTY)
    files = sorted(glob.glob(os.path.join(d, '*.json')))
    if not files:
        return None
    byname = {s_.name: s_ for s_ in subs}
    docs = []
    for f in files:
        doc = json.load(open(f))
        if doc.get('sub') in byname:
            docs.append((os.path.basename(f), doc))

    def cases(tier):
        for name, doc in docs:
            yield {'file': name, 'sub': doc['sub'], 'case': doc['case']}

    def run_case(c):
        out = byname[c['sub']].run_case(c['case'])
        out.nontrivial = True
        out.feat('saved-' + c['sub'])
        return out
    return Sub('regressions', run_case, cases=cases, distinct_by_construction=True)


def all_subs(mod, tier):
    subs = list(mod.subchecks(tier))
    reg = regression_sub(mod, subs)
    if reg is not None:
        subs.append(reg)
    return subs


def run_child(mod, tier, seed, shard, nshards, only=None):
    known = load_known(mod.PROPERTY)
    budget = 20.0 if tier == 'quick' else 90.0
    out = []
    for sub in all_subs(mod, tier):
        if only and sub.name not in only:
            continue
        if sub.strategy is not None:
            r = run_sub_hyp(sub, tier, seed, shard, nshards, known, budget)
        else:
            r = run_sub_enum(sub, tier, seed, shard, nshards, known)
        out.append(r.to_json())
    return out


def replay(mod, path):
    doc = json.load(open(path))
    known = load_known(mod.PROPERTY)
    subs = {s.name: s for s in all_subs(mod, 'quick')}
    sub = subs[doc['sub']]
    res = SubResult(sub.name)
    rec = _Recorder(sub, known, res, set())
    unknown = rec.observe(doc['case'])
    return unknown, res
