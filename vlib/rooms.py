"""Engine E: lighthouse room generator + ground-truth measurement synthesis.

Sweep angles are synthesised with plain rotation-matrix algebra and atan2 (never through LighthouseBsVector.from_cart / Pose),
so that the library's own conversions are not part of the oracle.
"""
import math

import numpy as np

SENSORS = np.array([(-0.015, 0.0075, 0.0), (-0.015, -0.0075, 0.0), (0.015, 0.0075, 0.0), (0.015, -0.0075, 0.0)])


def rot_axis(axis, angle):
    a = np.asarray(axis, float)
    a = a / np.linalg.norm(a)
    K = np.array([[0, -a[2], a[1]], [a[2], 0, -a[0]], [-a[1], a[0], 0]])
    return np.eye(3) + math.sin(angle) * K + (1 - math.cos(angle)) * (K @ K)


def look_at(pos, target):
    x = target - pos
    x = x / np.linalg.norm(x)
    up = np.array([0.0, 0.0, 1.0])
    y = np.cross(up, x)
    y = y / np.linalg.norm(y)
    z = np.cross(x, y)
    return np.column_stack([x, y, z])


def rot_angle(Ra, Rb):
    c = (np.trace(Ra.T @ Rb) - 1) / 2
    return math.acos(max(-1.0, min(1.0, c)))


class Room:
    """bs: dict id -> (R, t) in world frame; cfs: list of (R, t)"""

    def __init__(self, spec):
        rng = np.random.RandomState(spec['seed'] % (2 ** 31))
        self.ids = list(spec['ids'])
        ncf = spec['ncf']
        self.cfs = []
        for i in range(ncf):
            p = np.array([rng.uniform(-1, 1), rng.uniform(-1, 1), rng.uniform(0.0, 1.0)])
            if spec.get('box'):
                # all poses inside a small box (a Crazyflie hovering / carried around one spot) instead of the whole flight volume
                c0 = np.array([0.6 * math.cos(spec['seed'] % 7), 0.6 * math.sin(spec['seed'] % 7), 0.5])
                p = c0 + (p - np.array([0.0, 0.0, 0.5])) * np.array([spec['box'] / 2.0, spec['box'] / 2.0, spec['box']])
            yaw = rng.uniform(-math.pi, math.pi)
            if spec.get('yaw_mode') == 'quarter':
                # level poses that differ from the first one by exact quarter turns (a Crazyflie put down along the walls)
                yaw = 0.0 if i == 0 else float(rng.choice([0.0, 0.5 * math.pi, -0.5 * math.pi, -0.5 * math.pi, math.pi]))
            tilt_axis = np.array([rng.uniform(-1, 1), rng.uniform(-1, 1), 0.0])
            if np.linalg.norm(tilt_axis) < 1e-3:
                tilt_axis = np.array([1.0, 0.0, 0.0])
            tilt = math.radians(rng.uniform(0, spec.get('max_tilt', 10.0)))
            if spec.get('yaw_mode') == 'quarter':
                tilt = 0.0
            R = rot_axis(tilt_axis, tilt) @ rot_axis([0, 0, 1], yaw)
            self.cfs.append((R, p))
        self.bs = {}
        for b in self.ids:
            for _ in range(200):
                ang = rng.uniform(0, 2 * math.pi)
                r = rng.uniform(1.6, 3.2)
                pos = np.array([r * math.cos(ang), r * math.sin(ang), rng.uniform(1.8, 3.0)])
                d = [np.linalg.norm(pos - c[1]) for c in self.cfs]
                if min(d) >= 1.5 and max(d) <= 4.0:
                    break
            target = np.array([rng.uniform(-.3, .3), rng.uniform(-.3, .3), rng.uniform(0, .5)])
            R = look_at(pos, target) @ rot_axis(rng.normal(size=3) + 1e-6, math.radians(rng.uniform(0, 5)))
            self.bs[b] = (R, pos)

    def angles(self, bs_id, cf_index):
        """4 x (horizontal, vertical) V1 sweep angles of the sensors of pose cf_index seen from station bs_id"""
        Rb, tb = self.bs[bs_id]
        Rc, tc = self.cfs[cf_index]
        out = []
        for s in SENSORS:
            g = Rc @ s + tc
            p = Rb.T @ (g - tb)
            out.append((math.atan2(p[1], p[0]), math.atan2(p[2], p[0]), p[0]))
        return out

    def in_view(self, bs_id, cf_index):
        """all sensors well inside the field of view and seen from the top side of the deck"""
        Rb, tb = self.bs[bs_id]
        Rc, tc = self.cfs[cf_index]
        a = self.angles(bs_id, cf_index)
        if any(x[2] < 0.5 or abs(x[0]) > math.radians(60) or abs(x[1]) > math.radians(50) for x in a):
            return False
        normal = Rc @ np.array([0, 0, 1.0])
        view = tb - tc
        return float(normal @ view) / np.linalg.norm(view) > 0.2

    def relative(self, ref_index):
        """truth expressed in the frame of CF pose ref_index: (bs dict, cf list)"""
        R0, t0 = self.cfs[ref_index]
        bs = {b: (R0.T @ R, R0.T @ (t - t0)) for b, (R, t) in self.bs.items()}
        cfs = [(R0.T @ R, R0.T @ (t - t0)) for (R, t) in self.cfs]
        return bs, cfs
