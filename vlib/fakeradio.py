"""Engine C: fake Crazyradio USB dongle (pyusb-shaped) + safelink peer model + lock-step control.

The whole real stack runs on top of it: RadioDriver -> RadioManager -> _SharedRadio thread -> Crazyradio -> this object.
"""
import array
import queue as _queue
import threading
import types

SET_RADIO_CHANNEL = 0x01
SET_RADIO_ADDRESS = 0x02
SET_DATA_RATE = 0x03
SET_RADIO_ARC = 0x06


class RadioThreadEnded(Exception):
    """the driver's radio thread is gone although the link was not closed (it died on an exception)"""


class HarnessTimeout(Exception):
    pass


class _Ctx:
    def dispose(self, dev, *a, **k):
        dev.disposed = True

    def managed_open(self):
        pass


class FakeDongle:
    """answer(dongle, frame) -> bytes (status byte + payload) decides every transmission."""

    def __init__(self, serial='FAKE000001', bcd=0x0099, answer=None):
        self.serial_number = serial
        self.bcdDevice = bcd
        self._ctx = _Ctx()
        self.disposed = False
        self.channel = None
        self.address = None
        self.datarate = None
        self.arc = None
        self.ctrl = []
        self.tx = []        # (channel, datarate, address, frame bytes)
        self.answer = answer or (lambda d, frame: b'\x00')
        self._reply = b'\x00'

    def set_configuration(self, n=None):
        pass

    def reset(self):
        pass

    def ctrl_transfer(self, bmRequestType, bRequest, wValue=0, wIndex=0, data_or_wLength=None, timeout=None):
        self.ctrl.append((bRequest, wValue, wIndex, tuple(data_or_wLength) if data_or_wLength not in (None, ()) and not isinstance(data_or_wLength, int) else data_or_wLength))
        if bRequest == SET_RADIO_CHANNEL:
            self.channel = wValue
        elif bRequest == SET_RADIO_ADDRESS:
            self.address = tuple(data_or_wLength)
        elif bRequest == SET_DATA_RATE:
            self.datarate = wValue
        elif bRequest == SET_RADIO_ARC:
            self.arc = wValue
        return 0

    def write(self, endpoint=None, data=None, timeout=None):
        frame = bytes(bytearray(data))
        self.tx.append((self.channel, self.datarate, self.address, frame))
        self._reply = bytes(self.answer(self, frame))
        return len(frame)

    def read(self, endpoint, size, timeout=None):
        return array.array('B', self._reply)


class LockstepDongle(FakeDongle):
    """write() parks the calling (radio) thread until the harness posts the reply for THIS transmission."""

    def __init__(self, **kw):
        super().__init__(**kw)
        self.cv = threading.Condition()
        self.parked = None
        self.posted = None
        self.free_run = None   # when set: bytes reply used for every transmission without parking

    def write(self, endpoint=None, data=None, timeout=None):
        frame = bytes(bytearray(data))
        self.tx.append((self.channel, self.datarate, self.address, frame))
        with self.cv:
            if self.free_run is not None:
                self._reply = self.free_run
                return len(frame)
            self.parked = frame
            self.cv.notify_all()
            while self.posted is None and self.free_run is None:
                self.cv.wait(0.5)
            if self.posted is not None:
                self._reply = self.posted
            else:
                self._reply = self.free_run
            self.posted = None
            self.parked = None
        return len(frame)

    # harness side
    def next_tx(self, watchdog=20.0):
        with self.cv:
            waited = 0.0
            while self.parked is None:
                self.cv.wait(0.25 if waited else 0.02)
                waited += 0.25
                if getattr(self, 'alive_check', None) is not None and not self.alive_check() and self.parked is None:
                    raise RadioThreadEnded('the radio thread has ended')
                if waited > watchdog:
                    raise HarnessTimeout('radio thread did not transmit')
            return self.parked

    def post(self, reply):
        with self.cv:
            self.posted = bytes(reply)
            self.cv.notify_all()
            # wait until consumed so that the next next_tx() cannot see the stale frame
            waited = 0.0
            while self.posted is not None:
                self.cv.wait(0.25)
                waited += 0.25
                if waited > 20:
                    raise HarnessTimeout('radio thread did not take the reply')

    def release(self, reply=b'\x00'):
        with self.cv:
            self.free_run = bytes(reply)
            self.cv.notify_all()


class SafelinkPeer:
    """Reference model of the nRF51 ESB side: alternating-bit in both directions.

    uplink: a frame is NEW iff its up bit (0x08) equals the expected bit; accepting flips the expectation.
    downlink: the current downlink packet carries seq bit (0x04); the host acknowledges it by sending the *other* value
    in its down bit; the peer then advances to the next queued packet (or to "nothing to send")."""

    def __init__(self, supports_safelink=True):
        self.supports = supports_safelink
        self.safelink = False
        self.exp_up = 0
        self.cur = None          # current downlink packet (bytes) or None
        self.cur_seq = 1         # seq of the last downlink packet sent; next new one gets 1-cur_seq
        self.queue = []
        self.accepted = []       # uplink frames accepted (header&0xF3, payload)
        self.delivered_log = []

    def enable(self):
        self.safelink = True
        self.exp_up = 0
        self.cur = None
        self.cur_seq = 1

    def receive(self, frame):
        """Frame arrived at the peer. Returns the ack payload (bytes) the peer would send."""
        if self.supports and frame == b'\xff\x05\x01':
            self.enable()
            return b'\xff\x05\x01'
        if not self.safelink:
            self.accepted.append((frame[0], frame[1:]))
            if self.queue:
                return self.queue.pop(0)
            return b''
        up = (frame[0] >> 3) & 1
        down = (frame[0] >> 2) & 1
        if up == self.exp_up:
            self.exp_up ^= 1
            self.accepted.append((frame[0] & 0xF3, frame[1:]))
        # downlink
        if self.cur is not None and down != self.cur_seq:
            self.cur = None       # host confirmed it
        if self.cur is None and self.queue:
            self.cur_seq ^= 1
            pk = self.queue.pop(0)
            self.cur = bytes([(pk[0] & 0xF3) | (self.cur_seq << 2)]) + pk[1:]
        return self.cur if self.cur is not None else b''


class NonBlockingQueueShim(types.ModuleType):
    """Stands in for the `queue` module inside cflib.crtp.radiodriver during lock-step cases: timed waits return at once
    (the application only acts while the radio thread is parked, so a timed wait could never be satisfied anyway)."""

    def __init__(self):
        super().__init__('queue')
        self.Empty = _queue.Empty
        self.Full = _queue.Full

        class Queue(_queue.Queue):
            def get(self, block=True, timeout=None):
                if block and timeout is not None:
                    block, timeout = False, None
                return _queue.Queue.get(self, block, timeout)

            def put(self, item, block=True, timeout=None):
                if block and timeout is not None:
                    block, timeout = False, None
                return _queue.Queue.put(self, item, block, timeout)
        self.Queue = Queue


class _EndThread:
    def __eq__(self, other):
        raise SystemExit()

    __hash__ = None


class RadioEnv:
    """Installs fake dongles behind cflib.drivers.crazyradio._find_devices for the duration of a with-block."""

    def __init__(self, dongles, nonblocking_queue=False):
        self.dongles = dongles
        self.nonblocking_queue = nonblocking_queue

    def __enter__(self):
        import cflib.crtp.radiodriver as rd
        import cflib.drivers.crazyradio as cr
        self._cr, self._rd = cr, rd
        self._orig_find = cr._find_devices
        dongles = self.dongles

        def _find(serial=None):
            lst = dongles() if callable(dongles) else list(dongles)
            if serial is not None:
                for d in lst:
                    if d.serial_number == serial:
                        return d
            return lst
        cr._find_devices = _find
        self._orig_queue = rd.queue
        self._orig_retries = rd._nr_of_retries
        self._orig_arc = rd._nr_of_arc_retries
        if self.nonblocking_queue:
            rd.queue = NonBlockingQueueShim()
        # every case gets its own radio table: a shared radio left open by an earlier case of this process (e.g. a Crazyflie
        # object that was never closed) must not be handed to this case with its old fake dongle
        rd.RadioManager._radios = []
        return self

    def __exit__(self, *a):
        self._cr._find_devices = self._orig_find
        self._rd.queue = self._orig_queue
        self._rd._nr_of_retries = self._orig_retries
        self._rd._nr_of_arc_retries = self._orig_arc
        # the shared-radio threads of this case (one per dongle, they serve a command queue for ever) are told to end: a
        # command whose comparison with the command codes raises SystemExit ends the thread silently; without this every case
        # leaves immortal threads behind and a long run exhausts the machine
        for r in list(self._rd.RadioManager._radios):
            if r is not None:
                try:
                    r._cmd_queue.put((0, _EndThread(), None))
                except Exception:  # noqa
                    pass
        self._rd.RadioManager._radios = []
        return False
