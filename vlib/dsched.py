"""Engine A: deterministic scheduler with virtual time.

Logical threads run on real OS threads but exactly one holds the baton at any time.  Every operation on the virtual
primitives (VLock, VEvent, VQueue, VTimer, vtime.sleep, Thread.start/join) and every explicit yield_point() is a switch
point; the next thread is chosen from the `schedule` (a generated, shrinkable value).  Virtual time advances only when
no logical thread is runnable.  Nothing here reads the wall clock for a verdict.
"""
import collections
import queue as _q
import random
import threading
import traceback

_orig_start = threading.Thread.start
_orig_join = threading.Thread.join
_orig_is_alive = threading.Thread.is_alive

READY, BLOCKED, DONE, NEW = 'READY', 'BLOCKED', 'DONE', 'NEW'


class ThreadKill(BaseException):
    pass


class Deadlock(BaseException):
    pass


class Horizon(BaseException):
    pass


class LT:
    def __init__(self, thread, name):
        self.thread = thread
        self.name = name
        self.sem = threading.Semaphore(0)
        self.state = NEW
        self.wake_time = None
        self.reason = None
        self.kill = False
        self.raise_exc = None
        self.joiners = []
        self.waiting_on = None
        self.idle = False      # blocked in a documented idle poll

    def __repr__(self):
        return '<LT %s %s>' % (self.name, self.state)

    def _remove_waiter(self, t):
        if t in self.joiners:
            self.joiners.remove(t)


class Sched:
    active = None

    def __init__(self, schedule=None, horizon=300.0):
        """horizon: virtual seconds the main logical thread may stay in an UNTIMED wait before Horizon is raised in it."""
        schedule = schedule or {}
        self.main_blocked_at = 0.0
        self.spin = 0
        self.last_choice = None
        self.prefix = list(schedule.get('prefix', []))
        self.rng = random.Random(schedule.get('seed', 0))
        self.rate = float(schedule.get('rate', 0.0))
        self.ci = 0
        self.now = 0.0
        self.horizon = horizon
        self.threads = []
        self.deaths = []
        self.switches = 0
        self.preemptions = 0
        self.killing = False
        self.main = LT(threading.current_thread(), 'main')
        self.main.state = READY
        self.threads.append(self.main)
        self.cur = self.main
        self.by_thread = {threading.current_thread(): self.main}
        self.locks = []
        self.names = collections.Counter()
        # stalls: a thread is held up for a while at a switch point (descheduled by the OS, GC pause, swapped out):
        # [{'kind': 'any'|'start', 'at': n, 'd': seconds}] -> at the n-th switch point of that kind the running thread sleeps d
        self.stalls = {}
        for st_ in schedule.get('stalls', []) or []:
            self.stalls[(st_.get('kind', 'any'), int(st_['at']))] = float(st_['d'])
        self.yield_counts = collections.Counter()
        self.stall_log = []     # (virtual time, duration, thread name)

    # ---------------------------------------------------------------- core
    def me(self):
        return self.by_thread[threading.current_thread()]

    def _choose(self, ready, me):
        if len(ready) == 1:
            return ready[0]
        if self.ci < len(self.prefix):
            c = self.prefix[self.ci]
            self.ci += 1
        elif self.rate > 0 and self.rng.random() < self.rate:
            c = self.rng.randrange(1, 4)
        else:
            c = 0
        if me in ready:
            if c == 0:
                # fairness guard: a thread spinning without ever blocking must not starve the others for ever
                self.spin = self.spin + 1 if self.last_choice is me else 0
                self.last_choice = me
                if self.spin > 500:
                    self.spin = 0
                    others = [t for t in ready if t is not me]
                    return others[0]
                return me
            others = [t for t in ready if t is not me]
            self.preemptions += 1
            return others[(c - 1) % len(others)]
        return ready[c % len(ready)]

    def _dispatch(self, me):
        """me gives up the baton (it may or may not be READY). Returns when me holds the baton again."""
        while True:
            if self.killing:
                if me is self.main:
                    return
                if me.state != DONE:
                    # a thread being killed reached another switch point while unwinding: keep unwinding
                    me.kill = True
                    raise ThreadKill()
                self.cur = self.main
                self.main.sem.release()
                return
            ready = [t for t in self.threads if t.state == READY]
            if ready:
                nxt = self._choose(ready, me)
                break
            timed = [t for t in self.threads if t.state == BLOCKED and t.wake_time is not None]
            if not timed:
                if self.main.state == DONE:
                    raise RuntimeError('all threads finished')
                self._interrupt_main(Deadlock(self.describe()))
                continue
            tmin = min(t.wake_time for t in timed)
            self.now = max(self.now, tmin)
            if self.main.state == BLOCKED and self.main.wake_time is None and self.now - self.main_blocked_at > self.horizon:
                self._interrupt_main(Horizon(self.describe()))
                continue
            due = [t for t in timed if t.wake_time <= self.now]
            for t in due:
                t.state = READY
                t.reason = 'timeout'
                t.wake_time = None
                if t.waiting_on is not None:
                    t.waiting_on._remove_waiter(t)
                    t.waiting_on = None
        self.switches += 1
        self.cur = nxt
        if nxt is not me:
            nxt.sem.release()
            if me.state != DONE:
                me.sem.acquire()
        self._resumed(me)

    def _interrupt_main(self, exc):
        m = self.main
        m.raise_exc = exc
        m.state = READY
        m.wake_time = None
        if m.waiting_on is not None:
            m.waiting_on._remove_waiter(m)
            m.waiting_on = None

    def _resumed(self, me):
        if me.state == DONE:
            return
        if me.kill:
            raise ThreadKill()
        if me.raise_exc is not None:
            e, me.raise_exc = me.raise_exc, None
            raise e

    def yield_point(self, kind='any'):
        if self.stalls and not self.killing:
            for k in ('any', kind) if kind != 'any' else ('any',):
                self.yield_counts[k] += 1
                d = self.stalls.get((k, self.yield_counts[k]))
                if d:
                    self.stall_log.append((self.now, d, self.me().name))
                    self.block(None, d)
                    return
        self._dispatch(self.me())

    def block(self, waiting_on, timeout, idle=False):
        me = self.me()
        me.state = BLOCKED
        me.reason = None
        me.idle = idle
        me.waiting_on = waiting_on
        me.wake_time = None if timeout is None else self.now + max(0.0, timeout)
        if me is self.main:
            self.main_blocked_at = self.now
        try:
            self._dispatch(me)
        finally:
            me.idle = False
        return me.reason

    def wake(self, lt, reason='signal'):
        if lt.state == BLOCKED:
            lt.state = READY
            lt.reason = reason
            lt.wake_time = None
            lt.waiting_on = None

    def describe(self):
        return [(t.name, t.state, type(t.waiting_on).__name__ if t.waiting_on is not None else None, t.wake_time)
                for t in self.threads if t.state != DONE]

    def sleep(self, d):
        self.block(None, d)

    # ---------------------------------------------------------------- threads
    def start_thread(self, th):
        name = getattr(th, 'name', 'thread')
        base = type(th).__name__ if type(th) is not threading.Thread else (getattr(th, '_target', None).__name__ if getattr(th, '_target', None) else 'thread')
        self.names[base] += 1
        lt = LT(th, '%s#%d' % (base, self.names[base]))
        self.threads.append(lt)
        self.by_thread[th] = lt
        orig_run = th.run

        def run():
            lt.sem.acquire()
            try:
                if not lt.kill:
                    orig_run()
            except ThreadKill:
                pass
            except BaseException as e:  # noqa
                self.deaths.append((lt.name, repr(e), traceback.format_exc()))
            finally:
                lt.state = DONE
                for j in lt.joiners:
                    self.wake(j)
                lt.joiners = []
                try:
                    self._dispatch(lt)
                except BaseException:  # noqa
                    pass
        th.run = run
        _orig_start(th)
        lt.state = READY
        self.yield_point('start')

    def join_thread(self, th, timeout=None):
        lt = self.by_thread.get(th)
        if lt is self.me():
            raise RuntimeError('cannot join current thread')
        if lt.state == DONE:
            return
        lt.joiners.append(self.me())
        self.block(lt, timeout)
        if self.me() in lt.joiners:
            lt.joiners.remove(self.me())

    def spawn(self, fn, name='user'):
        th = threading.Thread(target=fn, name=name)
        th.daemon = True
        th.start()
        return th

    def teardown(self):
        self.killing = True
        me = self.main
        me.state = BLOCKED
        me.wake_time = None
        for t in list(self.threads):
            if t is me or t.state == DONE:
                continue
            t.kill = True
            t.state = READY
            t.wake_time = None
            self.cur = t
            t.sem.release()
            me.sem.acquire()          # t hands the baton back when it is DONE
        me.state = READY
        self.cur = me
        left = 0
        for t in self.threads:
            if t is not me:
                _orig_join(t.thread, 5)
                if _orig_is_alive(t.thread):
                    left += 1
        return left


def _p_start(self):
    s = Sched.active
    if s is None:
        return _orig_start(self)
    return s.start_thread(self)


def _p_join(self, timeout=None):
    s = Sched.active
    if s is None or self not in s.by_thread:
        return _orig_join(self, timeout)
    return s.join_thread(self, timeout)


def _p_is_alive(self):
    s = Sched.active
    if s is None or self not in s.by_thread:
        return _orig_is_alive(self)
    return s.by_thread[self].state != DONE


class _Waitable:
    def __init__(self):
        self.waiters = collections.deque()

    def _remove_waiter(self, t):
        try:
            self.waiters.remove(t)
        except ValueError:
            pass


class VLock(_Waitable):
    def __init__(self):
        super().__init__()
        self.owner = None
        s = Sched.active
        if s is not None:
            s.locks.append(self)

    def acquire(self, blocking=True, timeout=-1):
        s = Sched.active
        s.yield_point()
        me = s.me()
        if self.owner is None:
            self.owner = me
            return True
        if not blocking:
            return False
        self.waiters.append(me)
        r = s.block(self, None if timeout is None or timeout < 0 else timeout)
        return r == 'signal'   # ownership handed over by release

    def release(self):
        s = Sched.active
        if self.owner is None:
            raise RuntimeError('release unlocked lock')
        if self.waiters:
            w = self.waiters.popleft()
            self.owner = w
            s.wake(w)
        else:
            self.owner = None
        s.yield_point()

    def locked(self):
        return self.owner is not None

    def __enter__(self):
        return self.acquire()

    def __exit__(self, *a):
        self.release()


class VEvent(_Waitable):
    def __init__(self):
        super().__init__()
        self.flag = False

    def is_set(self):
        return self.flag

    isSet = is_set

    def set(self):
        s = Sched.active
        self.flag = True
        while self.waiters:
            s.wake(self.waiters.popleft())
        s.yield_point()

    def clear(self):
        self.flag = False

    def wait(self, timeout=None):
        s = Sched.active
        s.yield_point()
        if self.flag:
            return True
        self.waiters.append(s.me())
        s.block(self, timeout)
        return self.flag


class VQueue(_Waitable):
    def __init__(self, maxsize=0):
        super().__init__()
        self.items = collections.deque()
        self.maxsize = maxsize
        self.putters = collections.deque()
        self.put_log = []

    def qsize(self):
        return len(self.items)

    def empty(self):
        return not self.items

    def full(self):
        return self.maxsize > 0 and len(self.items) >= self.maxsize

    def put(self, item, block=True, timeout=None):
        s = Sched.active
        s.yield_point()
        if self.full():
            raise _q.Full
        self.items.append(item)
        self.put_log.append(item)
        if self.waiters:
            s.wake(self.waiters.popleft())

    def put_nowait(self, item):
        return self.put(item, False)

    def get(self, block=True, timeout=None, idle=False):
        s = Sched.active
        s.yield_point()
        while not self.items:
            if not block:
                raise _q.Empty
            self.waiters.append(s.me())
            r = s.block(self, timeout, idle=idle)
            if r == 'timeout' and not self.items:
                raise _q.Empty
        return self.items.popleft()

    def get_nowait(self):
        return self.get(False)


class VTime:
    def time(self):
        return 1.7e9 + Sched.active.now

    def sleep(self, d):
        if d < 0:
            raise ValueError('sleep length must be non-negative')
        Sched.active.block(None, d)

    def __getattr__(self, name):
        import time as _t
        return getattr(_t, name)


class VTimer:
    """Stand-in for threading.Timer: a logical thread that waits `interval` virtual seconds."""

    def __init__(self, interval, function, args=None, kwargs=None):
        self.interval, self.function = interval, function
        self.args, self.kwargs = args or [], kwargs or {}
        self.cancelled = False
        self.th = None
        self.fired = False

    def start(self):
        def timer():
            Sched.active.block(self, self.interval)
            if not self.cancelled:
                self.fired = True
                self.function(*self.args, **self.kwargs)
        self.th = threading.Thread(target=timer, name='timer')
        self.th.daemon = True
        self.th.start()

    def _remove_waiter(self, t):
        pass

    def cancel(self):
        self.cancelled = True
        s = Sched.active
        if s is not None and self.th is not None:
            lt = s.by_thread.get(self.th)
            if lt is not None and lt.state == BLOCKED and lt.waiting_on is self:
                s.wake(lt, 'cancelled')

    def is_alive(self):
        return self.th is not None and self.th.is_alive()


_REBIND = [
    ('cflib.crazyflie', {'Lock': VLock, 'Timer': VTimer, 'time': 'VTIME'}),
    ('cflib.crazyflie.param', {'Lock': VLock, 'Event': VEvent, 'Queue': VQueue}),
    ('cflib.crazyflie.mem', {'Lock': VLock}),
    ('cflib.crazyflie.link_statistics', {'Event': VEvent, 'time': 'VTIME'}),
    ('cflib.crazyflie.syncCrazyflie', {'Event': VEvent}),
    ('cflib.utils.callbacks', {'Event': VEvent}),
    ('cflib.utils.param_file_helper', {'Event': VEvent}),
    ('cflib.crazyflie.syncLogger', {'Queue': VQueue}),
    ('cflib.crazyflie.swarm', {'time': 'VTIME'}),
    ('cflib.positioning.motion_commander', {'Queue': VQueue, 'time': 'VTIME'}),
    ('cflib.positioning.position_hl_commander', {'time': 'VTIME'}),
    ('cflib.utils.reset_estimator', {'time': 'VTIME'}),
]


class Session:
    """with Session(schedule) as s: ...   installs the scheduler, rebinds cflib module globals, restores everything."""

    def __init__(self, schedule=None, horizon=300.0, yield_in_callers=True):
        self.schedule = schedule
        self.horizon = horizon
        self.yield_in_callers = yield_in_callers
        self.saved = []
        self.threads_left = 0

    def __enter__(self):
        import importlib
        assert Sched.active is None
        self.baseline_threads = threading.active_count()
        s = Sched(self.schedule, self.horizon)
        Sched.active = s
        self.s = s
        threading.Thread.start = _p_start
        threading.Thread.join = _p_join
        threading.Thread.is_alive = _p_is_alive
        vt = VTime()
        s.vtime = vt
        for modname, names in _REBIND:
            mod = importlib.import_module(modname)
            for n, v in names.items():
                self.saved.append((mod, n, getattr(mod, n)))
                setattr(mod, n, vt if v == 'VTIME' else v)
        if self.yield_in_callers:
            import cflib.utils.callbacks as cb
            orig_call = cb.Caller.call
            self.saved.append((cb.Caller, 'call', orig_call))

            def call(self_, *args):
                if Sched.active is not None:
                    Sched.active.yield_point()
                return orig_call(self_, *args)
            cb.Caller.call = call
        return s

    def __exit__(self, et, ev, tb):
        try:
            self.threads_left = self.s.teardown()
        finally:
            threading.Thread.start = _orig_start
            threading.Thread.join = _orig_join
            threading.Thread.is_alive = _orig_is_alive
            for mod, n, v in reversed(self.saved):
                setattr(mod, n, v)
            Sched.active = None
        return False
