"""Thread-free simulated memory port (CRTP port 4) + pumped fake Crazyflie, used by C14 (and as device model by C06).

The device model is written from the protocol as the library uses it: info channel (count, details), read channel
(id, addr32, len) -> (id, addr32, status, data), write channel (id, addr32, data) -> (id, addr32, status).
"""
import collections
import struct


class MemSpec:
    def __init__(self, mem_type, size, data=None, addr8=b'\0' * 8, fill=0, sparse=False):
        """sparse=True: `size` may be huge (up to 2**32-1); bytes live in a dict, untouched bytes read as content(addr)."""
        self.type = mem_type
        self.size = size
        self.sparse = sparse
        if sparse:
            self.data = bytearray()
            self.cells = {}
        else:
            self.data = bytearray(data if data is not None else bytes([fill]) * size)
            if len(self.data) < size:
                self.data += bytes([fill]) * (size - len(self.data))
        self.addr8 = bytes(addr8)

    @staticmethod
    def content(a):
        return (a * 7 + (a >> 8) * 13 + 3) & 0xff

    def peek(self, addr, ln):
        if not self.sparse:
            return bytes(self.data[addr:addr + ln])
        return bytes(self.cells.get(a, self.content(a)) for a in range(addr, addr + ln))

    def poke(self, addr, body):
        if not self.sparse:
            self.data[addr:addr + len(body)] = body
        else:
            for k, b in enumerate(body):
                self.cells[addr + k] = b


class MemDevice:
    EIO = 5

    def __init__(self, mems):
        self.mems = list(mems)  # index == id
        self.transcript = []

    def handle(self, port, channel, data):
        """returns list of (port, channel, bytes) replies"""
        self.transcript.append((port, channel, bytes(data)))
        if port != 4:
            return []
        if channel == 0:
            cmd = data[0]
            if cmd == 1:
                return [(4, 0, bytes([1, len(self.mems)]))]
            if cmd == 2:
                i = data[1]
                if i >= len(self.mems):
                    return [(4, 0, bytes([2, i]))]
                m = self.mems[i]
                return [(4, 0, bytes([2, i, m.type]) + struct.pack('<I', m.size) + m.addr8)]
            return []
        if channel == 1:
            mid, addr, ln = struct.unpack('<BIB', data[:6])
            if mid >= len(self.mems):
                return [(4, 1, struct.pack('<BIB', mid, addr, self.EIO))]
            m = self.mems[mid]
            if addr + ln > m.size:
                return [(4, 1, struct.pack('<BIB', mid, addr, self.EIO))]
            return [(4, 1, struct.pack('<BIB', mid, addr, 0) + bytes(self._get(m, addr, ln)))]
        if channel == 2:
            mid, addr = struct.unpack('<BI', data[:5])
            body = data[5:]
            if mid >= len(self.mems) or addr + len(body) > self.mems[mid].size:
                return [(4, 2, struct.pack('<BIB', mid, addr, self.EIO))]
            self._set(self.mems[mid], addr, body)
            return [(4, 2, struct.pack('<BIB', mid, addr, 0))]
        return []

    def _get(self, m, addr, ln):
        return m.peek(addr, ln)

    def _set(self, m, addr, body):
        m.poke(addr, body)


class PumpCf:
    """Minimal Crazyflie stand-in for the real cflib.crazyflie.mem.Memory: send_packet goes to the device, replies are
    queued and delivered to the registered port callbacks by pump()."""

    def __init__(self, device):
        from cflib.utils.callbacks import Caller
        self.device = device
        self.link = self        # connected (the memory subsystem refuses requests while there is no link)
        self.disconnected = Caller()
        self.queue = collections.deque()
        self.cbs = []
        self.sent = []

    def add_port_callback(self, port, cb):
        self.cbs.append((port, cb))

    def remove_port_callback(self, port, cb):
        self.cbs.remove((port, cb))

    def send_packet(self, pk, expected_reply=(), resend=False, timeout=0.2):
        port, channel = (pk.header & 0xF0) >> 4, pk.header & 0x03     # the header attribute is what a link driver transmits
        self.sent.append((port, channel, bytes(pk.data)))
        for rep in self.device.handle(port, channel, bytes(pk.data)):
            self.queue.append(rep)

    def pump(self, limit=100000):
        from cflib.crtp.crtpstack import CRTPPacket
        n = 0
        while self.queue:
            port, ch, data = self.queue.popleft()
            pk = CRTPPacket()
            pk.set_header(port, ch)
            pk.data = data
            for p, cb in list(self.cbs):
                if p == port:
                    cb(pk)
            n += 1
            if n > limit:
                raise RuntimeError('pump limit')
        return n


def make_memory(specs):
    """Returns (cf, device, Memory) with the memories enumerated through the real refresh sequence."""
    from cflib.crazyflie.mem import Memory
    dev = MemDevice(specs)
    cf = PumpCf(dev)
    mem = Memory(cf)
    done = []
    mem.refresh(lambda: done.append(1))
    cf.pump()
    return cf, dev, mem, bool(done)
