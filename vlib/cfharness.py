"""Helpers shared by the dsched/simcf based checks."""

EVENTS = ['connection_requested', 'connection_failed', 'link_established', 'connected', 'fully_connected', 'disconnected',
          'connection_lost', 'disconnected_link_error']


class Recorder:
    def __init__(self, env, cf):
        self.env = env
        self.events = []
        for n in EVENTS:
            getattr(cf, n).add_callback(lambda *a, n=n: self.events.append((env.s.now, n, a)))

    def names(self):
        return [e[1] for e in self.events]

    def mark(self, label):
        self.events.append((self.env.s.now, label, ()))


def make_cf(env, **kw):
    from cflib.crazyflie import Crazyflie
    cf = Crazyflie(**kw)
    return cf, Recorder(env, cf)


def connect(env, cf, rec, uri='sim://1', wait_for='fully_connected', timeout=30.0, step=0.05):
    """Opens the link from the main logical thread and advances virtual time until the event (or timeout)."""
    n0 = len(rec.events)
    cf.open_link(uri)
    t = 0.0

    def seen():
        return [e[1] for e in rec.events[n0:]]
    while wait_for not in seen() and 'connection_failed' not in seen() and 'disconnected' not in seen() and t < timeout:
        env.s.sleep(step)
        t += step
    return wait_for in seen()


def small_spec(nlog=2, nparam=3, version=10, mems=()):
    log_toc = [{'group': 'lg%d' % (i // 3), 'name': 'v%d' % i, 'type': [7, 1, 2, 3, 4, 5, 6, 8][i % 8]} for i in range(nlog)]
    ptypes = [0x08, 0x09, 0x0A, 0x0B, 0x00, 0x01, 0x02, 0x03, 0x06, 0x07]
    param_toc = [{'group': 'pg%d' % (i // 3), 'name': 'p%d' % i, 'type': ptypes[i % 10], 'value': i + 1, 'default': i} for i in range(nparam)]
    return {'version': version, 'log_toc': log_toc, 'param_toc': param_toc, 'mems': list(mems)}
