"""Engine B: simulated Crazyflie firmware peer + SimLink CRTP driver (runs under vlib.dsched).

The device model is written from the CRTP services as the pinned library uses them (ports, channels, commands, reply shapes);
it imports nothing from cflib except CRTPPacket/CRTPDriver for transport.
"""
import heapq
import struct

from vlib import dsched
from vlib.memdev import MemDevice, MemSpec

LOG_TYPES = {1: ('uint8_t', '<B', 1), 2: ('uint16_t', '<H', 2), 3: ('uint32_t', '<L', 4), 4: ('int8_t', '<b', 1),
             5: ('int16_t', '<h', 2), 6: ('int32_t', '<i', 4), 7: ('float', '<f', 4), 8: ('FP16', '<e', 2)}
PARAM_TYPES = {0x08: ('uint8_t', '<B'), 0x09: ('uint16_t', '<H'), 0x0A: ('uint32_t', '<L'), 0x0B: ('uint64_t', '<Q'),
               0x00: ('int8_t', '<b'), 0x01: ('int16_t', '<h'), 0x02: ('int32_t', '<i'), 0x03: ('int64_t', '<q'),
               0x06: ('float', '<f'), 0x07: ('double', '<d')}
ENOENT, E2BIG, EEXIST, ENOMEM = 2, 7, 17, 12


class SimDevice:
    def __init__(self, spec):
        self.spec = spec
        self.version = spec.get('version', 10)
        self.v2 = self.version >= 4
        self.log_toc = spec.get('log_toc', [])
        self.param_toc = spec.get('param_toc', [])
        self.log_crc = spec.get('log_crc', 0x1234ABCD)
        self.param_crc = spec.get('param_crc', 0x0BADF00D)
        self.values = [p.get('value', 0) for p in self.param_toc]
        self.stored = [p.get('stored') for p in self.param_toc]
        self.mem = MemDevice([MemSpec(m['type'], m['size'], data=bytes.fromhex(m.get('data', '')), fill=m.get('fill', 0),
                                      sparse=m.get('sparse', False)) for m in spec.get('mems', [])])
        self.blocks = {}
        self.transcript = []      # (time, port, channel, bytes)
        self.violations = []      # malformed requests seen by the device
        self.param_log = []       # ('req'|'rep', kind, bytes, time)

    # ------------------------------------------------------------ helpers
    def _toc_item(self, entry, param):
        if param:
            tb = entry['type'] | (0x40 if entry.get('ro') else 0) | (0x10 if entry.get('extended') else 0) | (0x20 if entry.get('core') else 0)
        else:
            tb = entry['type']
        return bytes([tb]) + entry['group'].encode('ISO-8859-1') + b'\0' + entry['name'].encode('ISO-8859-1') + b'\0'

    def pack_param(self, idx, value):
        fmt = PARAM_TYPES[self.param_toc[idx]['type']][1]
        return struct.pack(fmt, value)

    def handle(self, port, channel, data, now=0.0):
        data = bytes(data)
        self.transcript.append((now, port, channel, data))
        if len(data) > 30:
            self.violations.append('request of %d bytes on %d/%d' % (len(data), port, channel))
        try:
            if port == 15:
                return self._linkctrl(channel, data)
            if port == 13:
                return self._platform(channel, data)
            if port == 5:
                return self._log(channel, data)
            if port == 2:
                return self._param(channel, data, now)
            if port == 4:
                return self.mem.handle(port, channel, data)
        except (IndexError, struct.error) as e:
            self.violations.append('malformed request on %d/%d: %s (%r)' % (port, channel, data.hex(), e))
        return []

    def _linkctrl(self, ch, d):
        if ch == 0:
            return [(15, 0, d)]
        if ch == 1:
            if self.version >= 0:
                return [(15, 1, b'Bitcraze Crazyflie\0')]
            return [(15, 1, b'some old firmware \0')]
        return []

    def _platform(self, ch, d):
        if ch == 1 and d and d[0] == 0 and self.version >= 0:
            return [(13, 1, bytes([0, self.version]))]
        return []

    def _toc(self, port, d, toc, crc, param):
        cmd = d[0]
        if cmd == 1:    # info v1
            return [(port, 0, struct.pack('<BBIBB', 1, min(len(toc), 255), crc, 16, 128))]
        if cmd == 3:
            return [(port, 0, struct.pack('<BHIBB', 3, len(toc), crc, 16, 128))]
        if cmd == 0:
            i = d[1]
            if i < len(toc):
                return [(port, 0, bytes([0, i]) + self._toc_item(toc[i], param))]
            return [(port, 0, bytes([0, i]))]
        if cmd == 2:
            i = d[1] | (d[2] << 8)
            if i < len(toc):
                return [(port, 0, bytes([2, d[1], d[2]]) + self._toc_item(toc[i], param))]
            return [(port, 0, bytes([2, d[1], d[2]]))]
        return []

    def _log(self, ch, d):
        if ch == 0:
            return self._toc(5, d, self.log_toc, self.log_crc, False)
        if ch != 1:
            return []
        cmd = d[0]
        if cmd == 5:
            self.blocks = {}
            return [(5, 1, bytes([5, 0, 0]))]
        bid = d[1]
        if cmd in (0, 6, 1, 7):
            v2 = cmd in (6, 7)
            body = d[2:]
            items = []
            step = 3 if v2 else 2
            for k in range(len(body) // step):
                tb = body[k * step]
                vid = body[k * step + 1] | (body[k * step + 2] << 8) if v2 else body[k * step + 1]
                items.append((tb, vid))
            create = cmd in (0, 6)
            if create and bid in self.blocks:
                return [(5, 1, bytes([cmd, bid, EEXIST]))]
            if not create and bid not in self.blocks:
                return [(5, 1, bytes([cmd, bid, ENOENT]))]
            cur = [] if create else self.blocks[bid]['vars']
            for tb, vid in items:
                if vid >= len(self.log_toc) or (tb & 0xF) not in LOG_TYPES:
                    return [(5, 1, bytes([cmd, bid, ENOENT]))]
            size = sum(LOG_TYPES[tb & 0xF][2] for tb, vid in cur + items)
            if size > 26:
                return [(5, 1, bytes([cmd, bid, E2BIG]))]
            if create:
                self.blocks[bid] = {'vars': list(items), 'started': False, 'period': None, 'msgs': [d]}
            else:
                self.blocks[bid]['vars'] += items
                self.blocks[bid]['msgs'].append(d)
            return [(5, 1, bytes([cmd, bid, 0]))]
        if cmd == 2:
            if bid in self.blocks:
                del self.blocks[bid]
                return [(5, 1, bytes([2, bid, 0]))]
            return [(5, 1, bytes([2, bid, ENOENT]))]
        if cmd == 3:
            if bid in self.blocks:
                self.blocks[bid]['started'] = True
                self.blocks[bid]['period'] = d[2]
                return [(5, 1, bytes([3, bid, 0]))]
            return [(5, 1, bytes([3, bid, ENOENT]))]
        if cmd == 4:
            if bid in self.blocks:
                self.blocks[bid]['started'] = False
                return [(5, 1, bytes([4, bid, 0]))]
            return [(5, 1, bytes([4, bid, ENOENT]))]
        return []

    def log_data_packet(self, bid, timestamp, values):
        blk = self.blocks[bid]
        body = b''
        for (tb, vid), v in zip(blk['vars'], values):
            body += struct.pack(LOG_TYPES[tb & 0xF][1], v)
        return (5, 2, bytes([bid, timestamp & 0xff, (timestamp >> 8) & 0xff, (timestamp >> 16) & 0xff]) + body)

    def _param(self, ch, d, now):
        if ch == 0:
            return self._toc(2, d, self.param_toc, self.param_crc, True)
        idw = 2 if self.v2 else 1
        if ch == 1:
            idx = int.from_bytes(d[:idw], 'little')
            self.param_log.append(('req', 'read', d, now))
            if len(d) != idw:
                self.violations.append('param read request of wrong length: %s' % d.hex())
            if idx >= len(self.param_toc):
                rep = d[:idw] + (bytes([ENOENT]) if self.v2 else b'')
            else:
                rep = d[:idw] + (b'\0' if self.v2 else b'') + self.pack_param(idx, self.values[idx])
            self.param_log.append(('rep', 'read', rep, now))
            return [(2, 1, rep)]
        if ch == 2:
            idx = int.from_bytes(d[:idw], 'little')
            self.param_log.append(('req', 'write', d, now))
            if idx >= len(self.param_toc):
                rep = d[:idw] + bytes([ENOENT])
            else:
                fmt = PARAM_TYPES[self.param_toc[idx]['type']][1]
                if len(d) != idw + struct.calcsize(fmt):
                    self.violations.append('param write of wrong length for %s: %s' % (fmt, d.hex()))
                    rep = d[:idw] + bytes([ENOENT])
                else:
                    if not self.param_toc[idx].get('ro'):
                        self.values[idx] = struct.unpack(fmt, d[idw:])[0]
                    else:
                        self.violations.append('write to read-only parameter %d' % idx)
                    rep = d[:idw] + self.pack_param(idx, self.values[idx])
            self.param_log.append(('rep', 'write', rep, now))
            return [(2, 2, rep)]
        if ch == 3:
            cmd = d[0]
            if cmd == 0:
                return []
            idx = d[1] | (d[2] << 8)
            self.param_log.append(('req', 'misc%d' % cmd, d, now))
            ok = idx < len(self.param_toc)
            p = self.param_toc[idx] if ok else None
            head = d[:3]
            if cmd == 2:
                rep = head + bytes([1 if ok and p.get('persistent') else 0])
            elif cmd == 3:
                if ok and p.get('persistent'):
                    self.stored[idx] = self.values[idx]
                    rep = head + b'\0'
                else:
                    rep = head + bytes([ENOENT])
            elif cmd == 5:
                if ok and p.get('persistent'):
                    self.stored[idx] = None
                    rep = head + b'\0'
                else:
                    rep = head + bytes([ENOENT])
            elif cmd == 4:
                if ok and getattr(self, 'state_enoent_budget', {}).get(idx, 0) > 0:
                    # the firmware cannot answer this one (e.g. storage busy): "no such entry"
                    self.state_enoent_budget[idx] -= 1
                    rep = head + bytes([ENOENT])
                elif ok and p.get('persistent'):
                    if self.stored[idx] is None:
                        rep = head + b'\0' + self.pack_param(idx, p.get('default', 0))
                    else:
                        rep = head + b'\1' + self.pack_param(idx, p.get('default', 0)) + self.pack_param(idx, self.stored[idx])
                else:
                    rep = head + bytes([ENOENT])
            elif cmd == 6:
                if ok and not p.get('ro'):
                    rep = head + self.pack_param(idx, p.get('default', 0))
                else:
                    rep = head + bytes([ENOENT])
            else:
                return []
            self.param_log.append(('rep', 'misc%d' % cmd, rep, now))
            return [(2, 3, rep)]
        return []

    def value_updated_packet(self, idx, value):
        self.values[idx] = value
        return (2, 3, bytes([1, idx & 0xff, idx >> 8]) + self.pack_param(idx, value))


class Net:
    """Per-case network policy. delay(i) -> virtual delay of the i-th reply; lose_req/lose_rep sets of packet indexes."""

    def __init__(self, needs_resending=False, delays=None, lose_req=(), lose_rep=(), fault=None, default_delay=0.001):
        self.needs_resending = needs_resending
        self.delays = list(delays or [])
        self.lose_req = set(lose_req)
        self.lose_rep = set(lose_rep)
        self.fault = fault      # None | {'k': int, 'reporter': 'driver'|'sender'}
        self.default_delay = default_delay


class SimWorld:
    """What sim:// URIs resolve to for the current case."""
    current = None

    def __init__(self, device, net):
        self.device = device
        self.net = net
        self.links = []
        self.reply_index = 0
        self.req_index = 0
        self.fault_fired = False
        self.on_send = None       # optional hook(link, pk)
        self.reply_filter = None  # optional (link, request, replies) -> [(reply, delay|None, guard|None)]
        self.suppressed = 0
        self.fault_context = {}
        self.on_deliver = None


def _make_simlink_class():
    from cflib.crtp.crtpdriver import CRTPDriver
    from cflib.crtp.crtpstack import CRTPPacket
    from cflib.crtp.exceptions import WrongUriType

    class SimLink(CRTPDriver):
        def __init__(self):
            CRTPDriver.__init__(self)
            self.needs_resending = False
            self.world = None
            self.closed = False
            self.pending = []
            self.seq = 0
            self.tx = []            # (time, port, channel, bytes, closed?)
            self.rx_log = []
            self.last_due = 0.0
            self.muted = False
            self.order = []         # ('tx'|'rx', index into tx / rx_log) in the order things happened
            self.wakeup = dsched._Waitable()
            self.exchanged = 0
            self.err_cb = None
            self.session = None
            self._fault_thread = None
            self._fault_event = None

        def connect(self, uri, link_quality_callback, link_error_callback):
            if not uri.startswith('sim://'):
                raise WrongUriType('not a sim uri')
            w = SimWorld.current
            if w is None or uri.startswith('sim://absent'):
                raise Exception('no such simulated device')
            self.world = w
            self.needs_resending = w.net.needs_resending
            self.err_cb = link_error_callback
            self.session = len(w.links)
            w.links.append(self)
            if True:
                import threading
                self._fault_event = dsched.VEvent()

                def driver_thread():
                    self._fault_event.wait()
                    if not self.closed and not w.fault_fired and w.net.fault:
                        w.fault_fired = True
                        sch = dsched.Sched.active
                        def _busy():
                            b = False
                            for lt in sch.threads:
                                if lt.name.startswith('_IncomingPacketHandler') and lt.state != dsched.DONE:
                                    b = not (lt.state == dsched.BLOCKED and (lt.waiting_on is self.wakeup or lt.idle))
                            return b
                        if self.muted:
                            for _ in range(20000):
                                if not _busy() or self.closed:
                                    break
                                sch.sleep(0.0001)
                            if self.closed:
                                # the application closed the link before the dead link was noticed: nothing is reported
                                w.fault_fired = False
                                return
                        busy = _busy()
                        w.fault_context = {'dispatcher_busy': busy, 'time': sch.now}
                        n0 = len(self.rx_log)
                        self.err_cb((w.net.fault or {}).get('msg', 'injected link error (driver thread)'))
                        if len(self.rx_log) > n0:
                            # the dispatcher took a packet from the link while the error was being processed
                            w.fault_context['dispatcher_busy'] = True
                            w.fault_context['during_processing'] = True
                self._fault_thread = threading.Thread(target=driver_thread, name='simdriver')
                self._fault_thread.daemon = True
                self._fault_thread.start()

        def _count(self, sent_port=None):
            self.exchanged += 1
            w = self.world
            f = w.net.fault
            # a fault is placed after the k-th exchanged packet, or (on_port) at the first packet the library sends on that port
            if f and not w.fault_fired and self.session == f.get('session', 0) and (
                    (sent_port is not None and sent_port == f['on_port']) if f.get('on_port') is not None else self.exchanged >= f['k']):
                if f['reporter'] in ('driver', 'driver-quiet'):
                    if f['reporter'] == 'driver-quiet':
                        # the link is dead from this instant: nothing more is delivered or transmitted, and the error is
                        # reported once the dispatcher has finished with what it already has (no race with the dispatch)
                        self.muted = True
                    if self._fault_event is not None and not self._fault_event.is_set():
                        self._fault_event.set()
                    return None
                return 'raise' if f['reporter'] == 'raise' else 'sender'
            return None

        def send_packet(self, pk):
            s = dsched.Sched.active
            closed_at_entry = self.closed       # a send that was entered before close() counts as sent on an open link
            s.yield_point()
            w = self.world
            data = bytes(pk.data)
            # like the real drivers: what goes on the wire is the header attribute, not the port/channel properties
            hdr = pk.header
            port, channel = (hdr & 0xF0) >> 4, hdr & 0x03
            self.tx.append((s.now, port, channel, data, closed_at_entry))
            self.order.append(('tx', len(self.tx) - 1))
            if self.closed or self.muted:
                return
            if w.on_send:
                w.on_send(self, pk)
            verdict = self._count(port)
            if verdict == 'raise':
                # the transport itself fails in the caller's face (broken pipe on a tcp/udp link)
                w.fault_fired = True
                raise OSError('injected: broken pipe')
            if verdict == 'sender':
                w.fault_fired = True
                # the library hands such an error to a thread of its own: whether the dispatcher is in the middle of a
                # dispatch while it is processed is looked at when that processing closes the link (see close())
                w.fault_context = {'dispatcher_busy': False, 'time': s.now, 'sender': True, 'rx0': len(self.rx_log)}
                self.err_cb((w.net.fault or {}).get('msg', 'injected link error (sending thread)'))
                return
            i = w.req_index
            w.req_index += 1
            if i in w.net.lose_req:
                return
            reps = w.device.handle(port, channel, data, s.now)
            if w.reply_filter is not None:
                for rep, delay, guard in w.reply_filter(self, (port, channel, data), reps):
                    self.deliver(rep, delay, guard)
            else:
                for rep in reps:
                    self.deliver(rep)

        def deliver(self, rep, delay=None, guard=None):
            s = dsched.Sched.active
            w = self.world
            j = w.reply_index
            w.reply_index += 1
            if j in w.net.lose_rep:
                return
            due = None
            if delay is None:
                # the link's own latency varies from reply to reply but a link never reorders: a reply is not delivered
                # before one the device sent earlier (explicit delays model replies the device sends later, e.g. to a resend)
                delay = w.net.delays[j % len(w.net.delays)] if w.net.delays else w.net.default_delay
                due = max(s.now + delay, self.last_due)
                self.last_due = due
            self.seq += 1
            heapq.heappush(self.pending, (due if due is not None else s.now + delay, self.seq, rep, guard))
            while self.wakeup.waiters:
                s.wake(self.wakeup.waiters.popleft())

        def receive_packet(self, wait=0):
            s = dsched.Sched.active
            s.yield_point()
            deadline = s.now + (wait if wait and wait > 0 else 0)
            while True:
                if self.closed:
                    # like a real driver: a closed link has nothing to deliver, the timed wait still elapses
                    if wait and wait > 0 and s.now < deadline:
                        s.block(None, deadline - s.now, idle=True)
                    return None
                if self.pending and self.pending[0][0] <= s.now and not self.muted:
                    due, _, (port, ch, data), guard = heapq.heappop(self.pending)
                    if guard is not None and not guard():
                        self.world.suppressed += 1
                        continue
                    # as the radio and USB drivers do it: the packet is built from the raw header byte of the frame; bits 2-3 of it
                    # are link-level bits (sequence counters on a radio link, zero on USB) and mean nothing to the layers above
                    pk = CRTPPacket(((port & 0xF) << 4) | ((len(self.rx_log) % 4) << 2) | (ch & 3), list(data))
                    self.rx_log.append((s.now, port, ch, bytes(data)))
                    self.order.append(('rx', len(self.rx_log) - 1))
                    r = self._count()
                    if r == 'sender':
                        pass    # sender-reported faults only fire from send_packet
                    if self.world.on_deliver:
                        self.world.on_deliver(self, pk)
                    return pk
                if wait == 0 or s.now >= deadline:
                    return None
                t = deadline - s.now
                if self.pending and not self.muted:
                    t = min(t, self.pending[0][0] - s.now)
                self.wakeup.waiters.append(s.me())
                s.block(self.wakeup, t, idle=not self.pending)

        def close(self):
            s = dsched.Sched.active
            s.yield_point()
            ctx = self.world.fault_context
            if ctx.get('sender') and not self.closed and not ctx.get('judged'):
                ctx['judged'] = True
                me = s.me()
                for lt in s.threads:
                    if lt.name.startswith('_IncomingPacketHandler') and lt.state != dsched.DONE and lt is not me:
                        if not (lt.state == dsched.BLOCKED and (lt.waiting_on is self.wakeup or lt.idle)) or len(self.rx_log) > ctx['rx0']:
                            ctx['dispatcher_busy'] = True
            self.closed = True
            if self._fault_event is not None and not self._fault_event.is_set():
                self._fault_event.set()
            while self.wakeup.waiters:
                s.wake(self.wakeup.waiters.popleft())

        def get_name(self):
            return 'sim'

        def get_status(self):
            return 'ok'

        def scan_interface(self, address):
            return []

    return SimLink


_SIMLINK = {}


def simlink_class():
    if 'c' not in _SIMLINK:
        _SIMLINK['c'] = _make_simlink_class()
    return _SIMLINK['c']


class SimEnv:
    """with SimEnv(device_spec, net, schedule) as env:  env.s (scheduler), env.world, env.device; cflib.crtp.CLASSES = [SimLink]"""

    def __init__(self, spec, net=None, schedule=None, horizon=300.0):
        self.spec = spec
        self.net = net or Net()
        self.session = dsched.Session(schedule, horizon)

    def __enter__(self):
        import cflib.crtp
        self.s = self.session.__enter__()
        self.device = SimDevice(self.spec)
        self.world = SimWorld(self.device, self.net)
        SimWorld.current = self.world
        self._saved_classes = list(cflib.crtp.CLASSES)
        cflib.crtp.CLASSES[:] = [simlink_class()]
        return self

    def __exit__(self, *a):
        import cflib.crtp
        cflib.crtp.CLASSES[:] = self._saved_classes
        SimWorld.current = None
        return self.session.__exit__(*a)

    @property
    def threads_left(self):
        return self.session.threads_left
