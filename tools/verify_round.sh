#!/bin/bash
# usage: tools/verify_round.sh <srcroot e.g. /tmp/seeded3> "<names e.g. f g>" Cxx [Cyy ...]
# verifies <srcroot>/Cxx/<name> with tools/verify_seed.py and keeps confirmed ones under seeded/
root=$1; names=$2; shift 2
for p in "$@"; do for x in $names; do
  d=$root/$p/$x
  [ -f $d/patch.diff ] || { echo "$p $x: no patch"; continue; }
  python3 /verif/tools/verify_seed.py $d $p $x 2>&1 | python3 -c "
import sys,json
try:
    d=json.load(sys.stdin); print(d['property'],d['name'],'confirmed',d['confirmed'],'detected',d.get('detected'),d.get('tests_with_change','')[:12],d.get('demo_unchanged_exit'),d.get('demo_changed_exit'),[l[:200] for l in d.get('check_lines',[]) if 'iolation' in l][:2])
except Exception as e: print('$p $x ERR', e)"
done; done
