#!/usr/bin/env python3
"""For every "fix:" commit in /repo: revert it alone in a scratch worktree of /repo HEAD and run the quick check of the
property it is recorded under (KNOWN_FINDINGS.txt `fixed:` lines). The check has to report the violation again.

usage: tools/revert_fixes.py [--jobs N] [hash ...]      writes FIXES.md
"""
import os
import re
import shutil
import subprocess
import sys
import tempfile
from concurrent.futures import ThreadPoolExecutor

VERIF = os.path.dirname(os.path.dirname(os.path.abspath(__file__)))


# repairs that only mitigate one consequence of the listed C02 race (link error / close processed while the dispatcher is in the
# middle of a dispatch): the check folds everything observed under that race into the known finding, so their revert is not
# reported as a violation of its own
RACE_MITIGATIONS = {
    'a48275d': 'details reply of the dead session dispatched after the state was cleared (race)',
    'b916114': 'Latency.stop() from close_link() and from the link error at the same time (race)',
    'dcb1abc': 'disconnected delivered from two threads at the same time (race)',
}


def sh(cmd, **kw):
    return subprocess.run(cmd, shell=True, stdout=subprocess.PIPE, stderr=subprocess.STDOUT, text=True, **kw)


def fixed_lines():
    props = {}
    for line in open(os.path.join(VERIF, 'KNOWN_FINDINGS.txt')):
        m = re.match(r'fixed: property=(C\d\d) (.*)', line)
        if not m:
            continue
        pid, rest = m.group(1), m.group(2)
        for h in re.findall(r'\b[0-9a-f]{7}\b', rest):
            props.setdefault(h, [])
            if pid not in props[h]:
                props[h].append(pid)
    return props


def run_one(item):
    h, subject, pids = item
    wt = tempfile.mkdtemp(prefix='revert-')
    os.rmdir(wt)
    res = {'hash': h, 'subject': subject, 'properties': pids}
    try:
        assert sh('git -C /repo worktree add -q --detach %s HEAD' % wt).returncode == 0
        r = sh('git -C %s revert --no-commit %s' % (wt, h))
        if r.returncode != 0:
            res['status'] = 'revert conflicts with a later repair of the same lines'
            return res
        t = sh('cd %s && /venv/bin/python -m pytest -q -p no:cacheprovider --timeout=900 test 2>&1 | tail -1' % wt, env=dict(os.environ, PYTHONPATH=wt))
        res['tests'] = t.stdout.strip()
        res['checks'] = {}
        for pid in pids:
            c = sh('cd %s && /venv/bin/python check.py %s --tier quick' % (VERIF, pid), env=dict(os.environ, REPO=wt))
            lines = [l for l in c.stdout.splitlines() if l.strip().startswith('violation')]
            res['checks'][pid] = (c.returncode, sorted(set(l.strip().split(' ')[1].rstrip(':') for l in lines))[:5])
        res['status'] = 'DETECTED' if any(v[0] == 1 for v in res['checks'].values()) else 'MISSED'
        if res['status'] == 'MISSED' and h in RACE_MITIGATIONS:
            res['status'] = 'folded into the known C02 race: ' + RACE_MITIGATIONS[h]
    finally:
        sh('git -C /repo worktree remove --force %s' % wt)
        shutil.rmtree(wt, ignore_errors=True)
        shutil.rmtree(os.path.join('/tmp', 'verif-trial-' + os.path.basename(wt)), ignore_errors=True)
    return res


def main():
    args = [a for a in sys.argv[1:] if not a.startswith('--')]
    jobs = 3
    if '--jobs' in sys.argv:
        jobs = int(sys.argv[sys.argv.index('--jobs') + 1])
        args = [a for a in args if a != str(jobs)]
    props = fixed_lines()     # every 7-hex token of a fixed: line; only those that are fix commits are looked up below
    log = sh('git -C /repo log --reverse --format=%h\\ %s --grep "^fix:"').stdout.splitlines()
    items = []
    for l in log:
        h, subject = l.split(' ', 1)
        if args and h not in args:
            continue
        items.append((h, subject, props.get(h, [])))
    with ThreadPoolExecutor(max_workers=jobs) as ex:
        res = list(ex.map(run_one, items))
    with open(os.path.join(VERIF, 'FIXES.md'), 'w') as f:
        f.write('# Repairs, each reverted alone\n\nEvery "fix:" commit of /repo reverted on its own in a scratch worktree of the current head '
                '(`git revert --no-commit`), then the repository tests and the quick tier of the check(s) the repair is recorded under '
                '(`REPO=<worktree>`). A repair whose lines were changed again by a later repair cannot be reverted alone.\n\n'
                '| commit | subject | tests with the revert | check | signatures |\n|---|---|---|---|---|\n')
        for r in res:
            sigs = '; '.join('%s: %s' % (p, ', '.join(v[1])) for p, v in r.get('checks', {}).items())
            f.write('| %s | %s | %s | %s | %s |\n' % (r['hash'], r['subject'].replace('|', '/')[:90], r.get('tests', '-')[:24], r['status'], sigs[:200]))
        det = sum(1 for r in res if r['status'] == 'DETECTED')
        f.write('\n%d of %d reverted repairs are reported again by the quick tier.\n' % (det, len(res)))
    for r in res:
        print(r['hash'], r['status'], r['properties'], r.get('tests', '')[:20], r.get('checks'))


if __name__ == '__main__':
    main()
