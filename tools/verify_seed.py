#!/usr/bin/env python3
"""Confirms a seeded defect and records it under /verif/seeded/<id>-<x>/.

usage: tools/verify_seed.py <src dir with patch.diff(+patch.adapted.diff), demo.py, meta.json> <Cxx> <name> [--tier quick]

Steps (all in a scratch worktree of /repo HEAD under /tmp, removed afterwards):
 1. demo on the unchanged tree must exit 0
 2. apply the patch (adapted one if present), run the repository test suite (must be 187 passed), demo must exit non-zero
 3. run the registered check with REPO=<worktree>: records exit code and VIOLATION lines
"""
import json
import os
import shutil
import subprocess
import sys
import tempfile

VERIF = os.path.dirname(os.path.dirname(os.path.abspath(__file__)))


def sh(cmd, **kw):
    return subprocess.run(cmd, shell=True, stdout=subprocess.PIPE, stderr=subprocess.STDOUT, text=True, **kw)


def main():
    src, pid, name = sys.argv[1], sys.argv[2], sys.argv[3]
    tier = 'quick'
    if '--tier' in sys.argv:
        tier = sys.argv[sys.argv.index('--tier') + 1]
    check_pid = pid
    if '--check' in sys.argv:
        check_pid = sys.argv[sys.argv.index('--check') + 1]
    wt = tempfile.mkdtemp(prefix='seedverify-')
    os.rmdir(wt)
    assert sh('git -C /repo worktree add -q --detach %s HEAD' % wt).returncode == 0
    res = {'property': pid, 'name': name}
    try:
        env = dict(os.environ, PYTHONPATH=wt)
        demo = os.path.join(src, 'demo.py')
        r = sh('cd %s && timeout 300 /venv/bin/python %s' % (wt, demo), env=env)
        res['demo_unchanged_exit'] = r.returncode
        patch = os.path.join(src, 'patch.adapted.diff')
        adapted = os.path.exists(patch)
        if not adapted:
            patch = os.path.join(src, 'patch.diff')
        r = sh('git -C %s apply %s' % (wt, patch))
        if r.returncode != 0:
            print('PATCH DOES NOT APPLY:', r.stdout)
            return 3
        res['patch'] = 'adapted to the repaired tree' if adapted else 'as written by the sub-agent against the pinned commit'
        r = sh('cd %s && /venv/bin/python -m pytest -q -p no:cacheprovider --timeout=900 test 2>&1 | tail -1' % wt, env=env)
        res['tests_with_change'] = r.stdout.strip()
        r = sh('cd %s && timeout 300 /venv/bin/python %s' % (wt, demo), env=env)
        res['demo_changed_exit'] = r.returncode
        res['demo_changed_tail'] = r.stdout.strip().splitlines()[-3:]
        env2 = dict(os.environ, REPO=wt)
        r = sh('cd %s && /venv/bin/python check.py %s --tier %s' % (VERIF, check_pid, tier), env=env2)
        res['check_cmd'] = 'REPO=<worktree with change> /venv/bin/python check.py %s --tier %s' % (check_pid, tier)
        res['check_exit'] = r.returncode
        res['check_lines'] = [l[:400] for l in r.stdout.splitlines() if 'iolation' in l or 'VIOLATION' in l or 'HARNESS' in l][:8]
        res['detected'] = r.returncode == 1
    finally:
        sh('git -C /repo worktree remove --force %s' % wt)
        shutil.rmtree(wt, ignore_errors=True)
        shutil.rmtree(os.path.join('/tmp', 'verif-trial-' + os.path.basename(wt)), ignore_errors=True)
    ok = res.get('demo_unchanged_exit') == 0 and res.get('demo_changed_exit') not in (0, None) and '187 passed' in res.get('tests_with_change', '')
    res['confirmed'] = ok
    print(json.dumps(res, indent=1))
    if ok:
        dst = os.path.join(VERIF, 'seeded', '%s-%s' % (pid, name))
        os.makedirs(dst, exist_ok=True)
        shutil.copy(patch, os.path.join(dst, 'patch.diff'))
        if adapted:
            shutil.copy(os.path.join(src, 'patch.diff'), os.path.join(dst, 'patch.pinned.diff'))
        shutil.copy(demo, os.path.join(dst, 'demo.py'))
        meta = {}
        mp = os.path.join(src, 'meta.json')
        if os.path.exists(mp):
            try:
                meta = json.load(open(mp))
            except Exception:
                meta = {'raw': open(mp).read()}
        meta['verification'] = res
        json.dump(meta, open(os.path.join(dst, 'meta.json'), 'w'), indent=1)
    return 0


if __name__ == '__main__':
    sys.exit(main())
