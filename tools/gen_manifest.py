#!/usr/bin/env python3
"""Regenerates MANIFEST.json from the table below (kept next to the checks so the two do not drift)."""
import glob
import json
import os

VERIF = os.path.dirname(os.path.dirname(os.path.abspath(__file__)))

PY = '/venv/bin/python'

CHECKS = {
    # pid: (category, design_ref, engine, technique, level text, level_note)
    'C13': ('exploration', 'DESIGN.md 3/C13', 'refcodec',
            'exhaustive enumeration (65 536 half-float patterns, all colour levels x intensities) + Hypothesis generated inputs against numpy/struct reference decoders',
            'All 65 536 binary16 patterns and all colour/intensity rows are enumerated; quaternions, trajectory units and stream packets are '
            'searched with Hypothesis against independent reference codecs. Exhaustive where the domain is finite, sampled elsewhere.',
            'numpy.float16 and struct are the reference; RGB565 big-endian field layout is restated from the firmware.'),
}

CHECKS.update({
    'C07': ('exploration', 'DESIGN.md 3/C07', 'runner',
            'Hypothesis-generated registration tables, packet sequences and in-dispatch add/remove/raise behaviours; real dispatcher loop run on the harness thread; independent matcher oracle',
            'The real _IncomingPacketHandler.run() and Caller are executed against generated tables/packets/behaviours and compared with an '
            'independent matcher (exactly-once, registration order, isolation of raising callbacks, removal affects only that registration).',
            'Registrations are distinct 5-tuples; registrations added/removed during a dispatch may or may not see that packet.'),
    'C08': ('exploration', 'DESIGN.md 3/C08', 'refcodec',
            'Hypothesis-generated commands/arguments/protocol versions against an independent wire-layout table; exhaustive 16x4 header enumeration',
            'Every public command is called with generated arguments (boundary/special floats, ints beyond field ranges, all flag combinations) '
            'for protocol versions on both sides of each switch and X-mode on/off; the emitted packet is decoded with an independent table.',
            'The wire table restates the pinned sources (drift detector); firmware itself is not available offline.'),
    'C14': ('exploration', 'DESIGN.md 3/C14', 'memdev',
            'Hypothesis-generated image contents through the real Memory/element classes over a simulated memory port; exhaustive single-byte corruption positions per image against independent checksum/CRC verdicts; round-trip and independent struct decoders',
            'Images are written by the library, decoded by independent tables, parsed back by fresh and by re-used element objects, and every '
            'byte position of each EEPROM/1-wire image is corrupted (drawn masks) with validity compared to an independent checksum/CRC verdict. '
            'YAML files round-trip through temp files; deck info, anchor lists, Poly4D and LED timing layouts use reference encoders/decoders.',
            'Memory-port device model and format references are my restatement of the formats; 8-bit-CRC collisions with malformed content are excluded and counted.'),
    'C18': ('exploration', 'DESIGN.md 3/C18', 'runner',
            'exhaustive codec enumeration, exhaustive stream compositions for short streams + Hypothesis cuts/sequences, scripted-transport routing, lock-step tunnel over an in-memory socket',
            'CPX codec is enumerated over every routing combination; the TCP framing is re-assembled under every composition of short streams '
            'and random cuts of longer ones; CPXRouter.run executes on the harness thread with receivers registering before/during the stream; '
            'the real TcpDriver threads run over an in-memory socket.',
            'Stream-socket recv model; queues exist only after the first receivePacket (documented behaviour).'),
    'C20': ('exploration', 'DESIGN.md 3/C20', 'fakeradio',
            'Hypothesis URI grammar against a reference parser; real radio stack over a fake USB dongle (settings per transmission); scan worlds; per-class scheme claims; open_link event oracle',
            'Well-formed radio URIs are generated from the grammar and compared with an independent parser, then driven through the real '
            'RadioDriver/RadioManager/Crazyradio stack onto a fake dongle; scans run against generated worlds; every URI is offered to every '
            'driver class; malformed/unknown URIs go through a real Crazyflie.open_link.',
            'Fake dongle models the vendor requests the driver uses; pyserial/prrt absent in this image.'),
    'C12': ('fault_enumeration', 'DESIGN.md 3/C12', 'runner',
            'Hypothesis-generated geometries/image lengths/fault plans + exhaustive enumeration of all fault plans up to a bound, real Bootloader/Cloader over a scripted link to a target model',
            'All reply-fault plans over {ok, lost, wrong, negative, late} up to length 4 (thorough 6, plus lost-command) are enumerated for fixed '
            'images and random plans/geometries are searched beyond; the target model records every buffer byte and flash page, so content, '
            'page range, per-byte upload coverage, message size, retry bound and abort behaviour are all checked.',
            'Bootloader target model (page buffers, flash-write semantics, late reply = executed) is my restatement of the protocol.'),
    'C01': ('fault_enumeration', 'DESIGN.md 3/C01', 'fakeradio',
            'exhaustive enumeration of per-transmission outcome sequences (3^k, k<=5 quick / 8 thorough) x submission patterns + Hypothesis sequences; lock-step fake dongle with a reference safelink peer model',
            'Every sequence of {acked, uplink lost, ack lost} up to the bound is enumerated against the real radio stack with the application '
            'submitting at every possible point of the radio loop (lock-step), random longer histories beyond; exactly-once/in-order in both '
            'directions, link-error count and safelink negotiation are checked against a reference peer.',
            'Safelink peer model and dongle status-byte format restated from the firmware protocol; application acts only while the radio thread is parked.'),
    'C06': ('exploration', 'DESIGN.md 3/C06', 'dsched+simcf',
            'Hypothesis operation histories + reply-fault policies + generated thread schedules under a deterministic virtual-time scheduler against a simulated device; enumerated link-drop sweep; dict-backed memory image model',
            'A real Crazyflie runs against a simulated firmware peer with every thread interleaving decided by a generated schedule and all '
            'timers in virtual time; histories of reads/queued writes with duplicated/delayed/error replies and link drops after every k-th '
            'packet (enumerated for fixed histories) are compared with a memory image model, exactly-one notification bookkeeping and a probe.',
            'Device model and network policy are mine; interleavings are explored at synchronisation-operation granularity; bounded virtual horizon.'),
    'C03': ('exploration', 'DESIGN.md 3/C03', 'dsched+simcf',
            'Hypothesis-generated device tables / protocol versions / reply delays (natural duplicates and stale replies) / schedules; real connection under the deterministic scheduler; entry-by-entry comparison inside the connected callback',
            'Tables of every size class (0, small, 254..257, 300), type code and name length are served by a simulated device over links with '
            'delays around the retry timer, both protocol generations, cold and warm cache; the tables the library holds when `connected` fires '
            'are compared entry for entry with the device spec and the three lookup paths are cross-checked.',
            'Duplicates are limited to what the protocol can produce; device model is mine.'),
    'C11': ('fault_enumeration', 'DESIGN.md 3/C11', 'dsched+simcf',
            'exhaustive truncation of every byte offset of generated cache files + garbage/dir/missing variants + neighbouring checksums (direct); damaged caches and CRC collisions through real connections under the deterministic scheduler (integrated)',
            'For every generated table the cache file is cut at every byte offset and fetched again (None or identical table), directory '
            'combinations and near-miss checksums are exercised, the read-only directory is compared byte for byte, and damaged/colliding '
            'caches are fed to a real connection that must still reach `connected` with the device tables.',
            'Crash model = prefix of the intended file; corruptions that remain valid JSON are out of scope of the statement.'),
    'C04': ('exploration', 'DESIGN.md 3/C04', 'dsched+simcf',
            'Hypothesis-generated multi-thread request scripts with type-relative boundary values, device notifications, reply delays and thread schedules under the deterministic scheduler; device transcript + queue-order + per-reply callback + own-reply oracles',
            'Up to three user threads issue set/read/persistent/default requests against a fully connected simulated device under generated '
            'schedules; the device transcript decides typing and refusal, the updater queue decides issue order, delivery/transmission times '
            'decide one-at-a-time, and every reply is traced to the request it answers.',
            'Reliable link; FP16 excluded; wire-ambiguous default values excluded; each thread owns a disjoint parameter subset for attribution.'),
    'C05': ('exploration', 'DESIGN.md 3/C05', 'dsched+simcf',
            'Hypothesis-generated variable lists/periods/histories (start, stop, delete, data packets with extreme raw bytes, reconnect + re-add) and a SyncLogger consumer thread under the deterministic scheduler; independent message and value decoders; device block state as reference',
            'Configurations at every size/period boundary and create/append split point are offered to add_config; accepted ones are driven '
            'through generated histories against a simulated log engine; the create/append messages, every data packet, the added/started '
            'flags and the variable list after a re-add are compared with independent decoders and the device state.',
            'Block-creation decoding for protocol >= 4; legacy only single-packet; raw-memory variables are a listed known finding.'),
    'C02': ('exploration', 'DESIGN.md 3/C02', 'dsched+simcf',
            'Hypothesis-generated connect/fault/close/reconnect histories with generated thread schedules under a deterministic virtual-time scheduler; enumerated fault sweep over every k-th packet for both reporters, plain and SyncCrazyflie; lifecycle automaton + scheduler verdicts (deadlock, untimed wait beyond horizon, thread death)',
            'Every point of the connection sequence is hit by a link fault (from the driver thread or from inside send_packet) or a user close '
            'under generated interleavings of dispatcher, parameter, ping, timer and user threads; the public callback sequence is checked by '
            'an automaton, blocking Sync calls must return, no thread may die or deadlock, and a final healthy attempt on the same object '
            'must connect with the right tables.',
            'Interleavings at synchronisation-operation granularity; bounded virtual horizon; two listed known findings (error reported while the dispatcher is mid-dispatch).'),
    'C10': ('exploration', 'DESIGN.md 3/C10', 'dsched+simcf',
            'Hypothesis-generated request/reply/loss/close/reopen timelines with virtual timers and generated schedules; oracle over the virtually time-stamped transmission log against the retry law t0 + n*timeout and a reference longest-prefix pattern model',
            'Requests with prefix-sharing expectations and both timeouts are issued on resending and reliable links against a scripted peer '
            'that loses and delays replies around the retry instants; closes, link errors and reopens are placed relative to pending timers; '
            'every transmission is compared with the set of instants the retry law allows.',
            'Virtual time (timers exact); coincidences of a timer instant with a reply or a close are accepted either way.'),
    'C19': ('exploration', 'DESIGN.md 3/C19', 'dsched',
            'Hypothesis-generated swarm sizes, call scripts, argument dictionaries (fresh/re-used/shared lists), failing subsets and thread schedules under the deterministic scheduler; exactly-once/argument/order/error-chain oracle',
            'The real Swarm is driven with fake members over generated scripts of sequential/parallel/parallel_safe calls with failing subsets '
            'and yield points inside the action bodies; who ran, with which arguments, in which order, when the call returned and which error '
            'was chained are all compared with the script.',
            'Members are fakes; interleavings at thread start/join and yield points in action bodies.'),
    'C17': ('exploration', 'DESIGN.md 3/C17', 'dsched',
            'Hypothesis-generated flight programs (all primitives, start_*/stop with virtual waits, exceptions, explicit land vs context) with generated schedules of the setpoint thread under virtual time; recorded packet stream decoded independently and compared with a kinematic model',
            'Programs over every primitive of both helpers run in virtual time over the real commanders; the time-stamped packet stream is '
            'checked for the final STOP (+NOTIFY) with nothing after it, setpoint period, height integral, commanded vectors, primitive '
            'durations, modelled position and go-to targets.',
            'Zero-length moves not generated; virtual time; packet layouts as checked by C08.'),
    'C15': ('exploration', 'DESIGN.md 3/C15', 'rooms',
            'lattice enumeration over the field of view + Hypothesis directions/rotations/pose triples; round-trip, algebraic (inverse, associativity, composition) and differential oracles (solver projection vs Pose/atan2), independent light-plane equation',
            'All directions of a 1 deg (thorough 0.25 deg) lattice over the field of view and random ones are pushed through every conversion '
            'pair; pose laws are checked on generated rotations incl. identity, half turns and 1e-9 angles; the solver\'s vectorised '
            'projection is compared with the Pose-based projection incl. zero and beyond-pi rotation vectors.',
            'Tolerances 1e-9 (double paths), 1e-5 (float32 outputs).'),
    'C16': ('exploration', 'DESIGN.md 3/C16', 'rooms',
            'Hypothesis-generated constellations, rigid misalignments (<= 30 deg, <= 3 m), reference point layouts and scale factors; validity predicates (proper rotation, rigidity, sample placement) and metamorphic scaling oracle with independently synthesised rays',
            'Alignment is checked for rigidity on every case and for 1 mm exactness on noise-free layouts over the whole stated envelope; '
            'scaling is checked by shrinking/enlarging a true system and requiring the true system back, with rotations bit-identical and '
            'inputs deep-compared.',
            'Rays synthesised with plain rotation-matrix algebra; noisy layouts only check rigidity.'),
    'C09': ('exploration', 'DESIGN.md 3/C09', 'rooms',
            'Hypothesis-generated room structures (stations, ids, poses, visibility chains, time-stamp groupings) + seeded geometry with independently synthesised sweep angles; truth-comparison oracle (1 mm / 1 mrad), IPPE containment, solver fixed point, matcher re-implementation, linkability via union-find; mechanism-classified known findings with a rate bound',
            'Rooms in the stated envelope are generated with exact measurements and pushed through match -> estimate -> solve; results are '
            'compared with the truth in the frame of the first sample, unlinkable systems must raise, linkable ones must not; failures are '
            'classified by mechanism (mirrored initial estimate, evaluation cap, mirror cluster) and only those listed are tolerated, with a '
            '10 % rate bound on the mirrored class.',
            'Measurement synthesis by plain rotation algebra; three listed known findings (2-5 % of rooms).'),
})

ALL = ['C%02d' % i for i in range(1, 21)]

PENDING_REASON = 'check not built yet in this round (DESIGN.md 4.1 build order); the technique applies and the property will be claimed once its check exists'


# sub-checks added in seeded rounds 9 and 10 (appended to the technique of the check)
TECH_EXTRA = {
    'C01': 'several RadioDriver objects on one free-running fake dongle (open/close histories, per-link cyclic loss patterns, a slow dongle transaction, channels 0 and 125); error callback closing the driver on the radio thread',
    'C02': 'enumerated sweeps of firmware-initiated value notifications over the handshake, application re-reads from connected, attempts without a usable driver',
    'C03': 'first connection cut at every parameter-port packet, then cached connections',
    'C05': 'log tables above 255 entries; SyncLogger against a device that sends samples right behind the START acknowledgement with one forced thread switch at every decision',
    'C06': 'refused chunks answered twice (enumerated positions and gaps), varying status bytes',
    'C07': 'callbacks that rewrite the packet header; registrations made and taken back within one dispatch',
    'C09': 'long recordings (300-520 poses)',
    'C11': 'two or three caches inserting into one directory with the order of their file operations enumerated by a turn-taking gate (harness-owned schedule); read-only directories with many files',
    'C12': 'link that builds frames after send_packet returned; empty image; Bootloader object re-used after an aborted flashing',
    'C13': 'every trajectory segment packed twice',
    'C14': 'trajectories (Poly4D and compressed) written into a second and third slot from the same objects',
    'C15': 'scaled/negated quaternions; indexed solver projection with 1023..4100 rows',
    'C16': 'align, re-scale the same pose objects, align again',
    'C17': 'exceptions with no / several arguments and KeyboardInterrupt leaving the context',
    'C18': 'two senders on one socket transport with the order of their socket calls enumerated',
    'C19': 'identity-carrying argument objects; URI collections naming one Crazyflie twice; members of other swarms',
    'C20': 'malformed radio URIs with a fake dongle attached; trailing slashes',
}


def main():
    checks = []
    for pid in ALL:
        if pid not in CHECKS:
            continue
        if not glob.glob(os.path.join(VERIF, 'props', pid.lower() + '_*.py')):
            continue
        cat, ref, engine, tech, text, note = CHECKS[pid]
        if pid in TECH_EXTRA:
            tech = tech + '; ' + TECH_EXTRA[pid]
        checks.append({
            'property_id': pid,
            'quick_cmd': '%s check.py %s --tier quick' % (PY, pid),
            'thorough_cmd': '%s check.py %s --tier thorough' % (PY, pid),
            'evidence_file': 'evidence/%s.json' % pid,
            'replay_cmd_template': '%s check.py %s --replay {path}' % (PY, pid),
            'engine': engine,
            'level_claimed': {'category': cat, 'text': text, 'design_ref': ref},
            'level_note': note,
            'technique': tech,
        })
    claimed = {c['property_id'] for c in checks}
    manifest = {
        'version': 1,
        'setup_cmd': '%s -c "import hypothesis, numpy, scipy, yaml" || %s -m pip install --no-index --find-links /opt/veriftools/wheels hypothesis' % (PY, PY),
        'hooks': {
            'guard': 'CFLIB_VERIF',
            'enable': 'no source hooks: checks import /repo (REPO env, default /repo) from the working tree and rebind module-level '
                      'concurrency names (Lock, Timer, Event, Queue, time) at run time',
            'baseline_off_cmd': 'cd /repo && /venv/bin/python -m pytest -ra -q -p no:cacheprovider --timeout=900 --continue-on-collection-errors',
            'source_commits': [],
            'add_only': True,
        },
        'engines': [
            {'name': 'dsched', 'path': 'vlib/dsched.py', 'serves_properties': ['C02', 'C03', 'C04', 'C05', 'C06', 'C10', 'C11', 'C17', 'C19'],
             'kind_free_text': 'deterministic scheduler with virtual time: logical threads on real threads, one baton, schedule is a generated value'},
            {'name': 'simcf', 'path': 'vlib/simcf.py', 'serves_properties': ['C02', 'C03', 'C04', 'C05', 'C06', 'C10', 'C11'],
             'kind_free_text': 'simulated Crazyflie firmware peer (CRTP services) + SimLink driver with network/fault policy'},
            {'name': 'fakeradio', 'path': 'vlib/fakeradio.py', 'serves_properties': ['C01', 'C20'],
             'kind_free_text': 'fake Crazyradio USB dongle (pyusb shaped), lock-step control, safelink peer model'},
            {'name': 'memdev', 'path': 'vlib/memdev.py', 'serves_properties': ['C06', 'C14'],
             'kind_free_text': 'memory-port device model and pumped thread-free Crazyflie stand-in'},
            {'name': 'rooms', 'path': 'vlib/rooms.py', 'serves_properties': ['C09'],
             'kind_free_text': 'lighthouse room generator and independent sweep-angle synthesis'},
            {'name': 'runner', 'path': 'vlib/runner.py', 'serves_properties': sorted(claimed),
             'kind_free_text': 'Hypothesis driver / exhaustive enumerator, root-cause bucketing, shrinking budget, replay + evidence writer'},
        ],
        'checks': checks,
        'not_applicable': [{'property_id': p, 'reason': PENDING_REASON} for p in ALL if p not in claimed],
        'notes': 'All checks: check.py <id> [--tier quick|thorough] [--replay file]; VERIF_SEED selects the Hypothesis seed; '
                 'exit 0 held / 1 VIOLATION / 2 harness error (inconclusive). Known findings: KNOWN_FINDINGS.txt.',
    }
    extra = os.path.join(VERIF, 'tools', 'engines.json')
    if os.path.exists(extra):
        manifest['engines'] += json.load(open(extra))
    with open(os.path.join(VERIF, 'MANIFEST.json'), 'w') as f:
        json.dump(manifest, f, indent=1)
    print('claimed', sorted(claimed))


if __name__ == '__main__':
    main()
