#!/bin/bash
# usage: tools/make_regression.sh <fix-hash> <Cxx> [tier] [seeds...]
# Reverts the repair alone in a scratch worktree, runs the check against it until it reports a violation and stores the
# shrunk failing cases as regressions/<Cxx>/<hash>-<file>.json (the replay tier run by every check).
set -u
H=$1; ID=$2; TIER=${3:-quick}; shift; shift; shift 2>/dev/null
SEEDS=${*:-1 2 3 4 5 6}
WT=$(mktemp -d /tmp/regr-XXXXXX); rmdir "$WT"
git -C /repo worktree add -q --detach "$WT" HEAD || exit 3
trap 'git -C /repo worktree remove --force "$WT" 2>/dev/null; rm -rf "$WT" "$OUT"' EXIT
git -C "$WT" revert --no-commit "$H" >/dev/null 2>&1 || { echo "revert conflicts"; exit 3; }
OUT=$(mktemp -d /tmp/regr-out-XXXXXX)
cd /verif
for s in $SEEDS; do
  VERIF_SEED=$s VERIF_OUT="$OUT" REPO="$WT" /venv/bin/python check.py $ID --tier $TIER > "$OUT/log" 2>&1
  if grep -q "^VIOLATION" "$OUT/log"; then
    mkdir -p regressions/$ID
    for f in "$OUT"/replays/$ID/*.json; do
      python3 - "$f" "$H" "regressions/$ID/$H-$(basename $f)" <<'PY'
import json, sys
d = json.load(open(sys.argv[1]))
if d.get('sub') == 'regressions':
    sys.exit(0)
d['fix'] = sys.argv[2]
json.dump(d, open(sys.argv[3], 'w'), indent=1)
print('stored', sys.argv[3], d['signature'])
PY
    done
    exit 0
  fi
  echo "seed $s: no violation"
done
exit 1
