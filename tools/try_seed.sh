#!/bin/bash
# usage: tools/try_seed.sh <patch.diff> <Cxx> [extra check args]
# Applies the patch to a scratch worktree of /repo HEAD (never to /repo itself), runs the check against it (REPO=...), removes it.
set -u
P=$(readlink -f "$1"); ID=$2; shift 2
WT=$(mktemp -d /tmp/seedrun-XXXXXX)
rmdir "$WT"
git -C /repo worktree add -q --detach "$WT" HEAD || exit 3
cleanup() { git -C /repo worktree remove --force "$WT" 2>/dev/null; rm -rf "$WT" "/tmp/verif-trial-$(basename "$WT")"; }
trap cleanup EXIT
if ! git -C "$WT" apply "$P" 2>/dev/null; then
  if ! git -C "$WT" apply -3 "$P" >/dev/null 2>&1 || git -C "$WT" diff --name-only --diff-filter=U | grep -q .; then echo "PATCH DOES NOT APPLY to current HEAD"; exit 3; fi
fi
cd /verif
REPO="$WT" /venv/bin/python check.py $ID "$@" 2>&1 | grep -E "VIOLATION|violation|HARNESS|KNOWN|cases|Error|error" | cut -c1-500 | head -14
echo "exit=${PIPESTATUS[0]}"
