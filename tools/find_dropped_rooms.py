#!/usr/bin/env python3
"""Offline search (run once, result committed): rooms of the C09 envelope with all poses inside a small box in which the
UNCHANGED library discards error-free samples as outliers (listed known finding estimate:clean-samples-dropped) and a base
station is seen for the first time after the first discarded sample. Such rooms are about one in a few hundred, too rare for
the random tier; the stored cases are replayed by the C09 sub-check `dropped-sample-rooms`.

usage: /venv/bin/python tools/find_dropped_rooms.py [first_seed last_seed]  ->  corpus/C09/dropped-sample-rooms.json
"""
import json
import os
import sys
from multiprocessing import Pool

VERIF = os.path.dirname(os.path.dirname(os.path.abspath(__file__)))
sys.path.insert(0, VERIF)
sys.path.insert(0, os.environ.get('REPO', '/repo'))


def probe(seed):
    import props.c09_geometry as m
    from cflib.localization.lighthouse_initial_estimator import LighthouseInitialEstimator
    from cflib.localization.lighthouse_sample_matcher import LighthouseSampleMatcher
    from cflib.localization.lighthouse_types import LhDeck4SensorPositions
    found = []
    for vis in ('random', 'chain', 'split'):
        n = 3 + seed % 3
        case = {'seed': seed * 7919 + 13, 'ids': [1, 4, 6, 9, 12][:n], 'ncf': 5 + seed % 8, 'visibility': vis, 'timing': 'sparse', 'bs_order': 'sorted',
                'max_tilt': 10.0, 'yaw_mode': 'random', 'box': [0.3, 0.5, 0.8][seed % 3]}
        try:
            room, vis_, meas, groups = m._build(case)
            matched = LighthouseSampleMatcher.match(meas, min_nr_of_bs_in_match=2)
            init, cleaned = LighthouseInitialEstimator.estimate(matched, LhDeck4SensorPositions.positions)
        except Exception:  # noqa
            continue
        if len(cleaned) == len(matched):
            continue
        kept = set(round(s.timestamp, 6) for s in cleaned)
        first_dropped = next(i for i, s in enumerate(matched) if round(s.timestamp, 6) not in kept)
        before = set(b for s in matched[:first_dropped] for b in s.angles_calibrated)
        later = set(b for s in matched[first_dropped + 1:] if round(s.timestamp, 6) in kept for b in s.angles_calibrated)
        if later - before:
            found.append(case)
    return found


if __name__ == '__main__':
    a, b = (int(sys.argv[1]), int(sys.argv[2])) if len(sys.argv) > 2 else (0, 6000)
    with Pool(12) as pool:
        res = [c for lst in pool.map(probe, range(a, b), chunksize=20) for c in lst]
    res = res[:60]
    path = os.path.join(VERIF, 'corpus', 'C09', 'dropped-sample-rooms.json')
    json.dump(res, open(path, 'w'), indent=0)
    print(len(res), 'rooms ->', path)
