#!/usr/bin/env python3
"""Offline search (run once, result committed): rooms of the C09 envelope, stations reporting in descending id order, for which the
UNCHANGED library's initial estimate is rough (more than 2 cm / 20 mrad off, usually a mirrored pose for some sample) and the solver
nevertheless reaches the truth (to 0.3 mm / 0.3 mrad). In such rooms the answer depends on the solver really descending; they are a few percent of all
rooms. Replayed by the C09 sub-check `rough-initial-rooms`.

usage: /venv/bin/python tools/find_rough_rooms.py [first_seed last_seed]  ->  corpus/C09/rough-initial-rooms.json
"""
import json
import os
import sys
from multiprocessing import Pool

VERIF = os.path.dirname(os.path.dirname(os.path.abspath(__file__)))
sys.path.insert(0, VERIF)
sys.path.insert(0, os.environ.get('REPO', '/repo'))


def probe(seed):
    import numpy as np
    import props.c09_geometry as m
    from vlib.rooms import rot_angle
    from cflib.localization.lighthouse_geometry_solver import LighthouseGeometrySolver
    from cflib.localization.lighthouse_initial_estimator import LighthouseInitialEstimator
    from cflib.localization.lighthouse_sample_matcher import LighthouseSampleMatcher
    from cflib.localization.lighthouse_types import LhDeck4SensorPositions
    found = []
    n = 2 + seed % 4
    case = {'seed': seed * 6007 + 5, 'ids': [1, 4, 6, 9, 12][:n], 'ncf': 4 + seed % 9, 'visibility': ['full', 'random', 'chain'][seed % 3] if n >= 3 else 'full',
            'timing': 'sparse', 'bs_order': 'reverse', 'max_tilt': 10.0, 'yaw_mode': 'random', 'box': [None, None, 0.8][seed % 3]}
    try:
        room, vis_, meas, groups = m._build(case)
        matched = LighthouseSampleMatcher.match(meas, min_nr_of_bs_in_match=2)
        sensors = LhDeck4SensorPositions.positions
        init, cleaned = LighthouseInitialEstimator.estimate(matched, sensors)
        if len(cleaned) != len(matched):
            return found
        usable = [g for g in groups if len(g[1]) >= 2]
        tb, tc = room.relative(usable[0][2])
        seen = sorted(init.bs_poses)
        ini = max(max(rot_angle(init.bs_poses[b].rot_matrix, tb[b][0]), float(np.linalg.norm(init.bs_poses[b].translation - tb[b][1]))) for b in seen)
        ini_r = max(rot_angle(init.bs_poses[b].rot_matrix, tb[b][0]) for b in seen)
        for (t_, g, i), p in zip(usable, init.cf_poses):
            ini_r = max(ini_r, rot_angle(p.rot_matrix, tc[i][0]))
        if not 0.02 < ini:
            return found
        sol = LighthouseGeometrySolver.solve(init, cleaned, sensors)
        fin = max(max(rot_angle(sol.bs_poses[b].rot_matrix, tb[b][0]), float(np.linalg.norm(sol.bs_poses[b].translation - tb[b][1]))) for b in seen)
        for (t_, g, i), p in zip(usable, sol.cf_poses):
            fin = max(fin, rot_angle(p.rot_matrix, tc[i][0]), float(np.linalg.norm(p.translation - tc[i][1])))
        if fin < 3e-4:
            found.append(dict(case, stored_exact=True))
    except Exception as e:  # noqa
        if os.environ.get('DEBUG'):
            import traceback; traceback.print_exc()
    return found


if __name__ == '__main__':
    a, b = (int(sys.argv[1]), int(sys.argv[2])) if len(sys.argv) > 2 else (0, 4000)
    with Pool(12) as pool:
        res = [c for lst in pool.map(probe, range(a, b), chunksize=20) for c in lst]
    res = res[:40]
    path = os.path.join(VERIF, 'corpus', 'C09', 'rough-initial-rooms.json')
    json.dump(res, open(path, 'w'), indent=0)
    print(len(res), 'rooms ->', path)
