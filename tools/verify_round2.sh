#!/bin/bash
# usage: tools/verify_round2.sh Cxx  -> verifies /tmp/seeded2/Cxx/{c,d,e} and keeps confirmed ones under seeded/
for x in c d e; do
  d=/tmp/seeded2/$1/$x
  [ -f $d/patch.diff ] || { echo "$1 $x: no patch"; continue; }
  python3 /verif/tools/verify_seed.py $d $1 $x 2>&1 | python3 -c "
import sys,json
try:
    d=json.load(sys.stdin); print(d['property'],d['name'],'confirmed',d['confirmed'],'detected',d.get('detected'),d.get('tests_with_change','')[:12],d.get('demo_unchanged_exit'),d.get('demo_changed_exit'),[l[:200] for l in d.get('check_lines',[]) if 'iolation' in l][:2])
except Exception as e: print('$1 $x ERR', e)"
done
