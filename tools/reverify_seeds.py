#!/usr/bin/env python3
"""Re-runs every stored seeded defect (seeded/<Cxx>-<x>/patch.diff + demo.py) against the current checks and the current /repo HEAD,
refreshes the 'verification' record in each meta.json and writes seeded/INDEX.md (which check catches which change).

usage: tools/reverify_seeds.py [Cxx-x ...] [--jobs N]

Each seed gets its own scratch worktree of /repo HEAD under /tmp (removed afterwards); /repo itself is never touched.
"""
import json
import os
import shutil
import subprocess
import sys
import tempfile
from concurrent.futures import ThreadPoolExecutor

VERIF = os.path.dirname(os.path.dirname(os.path.abspath(__file__)))
SEEDED = os.path.join(VERIF, 'seeded')

# seeds that are caught by the check of a neighbouring property (the observable they break belongs to that check's harness)
OTHER_CHECK = {'C02-e': ['C03'], 'C03-d': ['C11'], 'C03-g': ['C11'], 'C04-g': ['C10'], 'C10-h': ['C01'], 'C17-h': ['C08'], 'C19-h': ['C02'], 'C14-j': ['C13'], 'C15-l': ['C09'], 'C04-n': ['C03'], 'C04-r': ['C02'], 'C04-s': ['C02'], 'C02-t': ['C01'], 'C11-t': ['C03'], 'C14-t': ['C13']}
# seeds no check can reach, with the reason (also in DESIGN.md 8.5)
OUT_OF_REACH = {
    'C07-e': 'needs a second thread removing a registration between two plain statements of remove_header_callback; the property quantifies over '
             'operations performed from inside callbacks during dispatch, and the scheduler engine only switches at synchronisation points',
    'C07-s': 'add/remove_header_callback publish a changed copy of the table: needs a second thread completing its own add/remove between the copy '
             'and the store of the first (two plain statements); same reason as C07-e - the property quantifies over changes made from inside '
             'callbacks during dispatch, which the copy-and-publish version handles exactly like the unchanged code',
    'C13-c': 'non-reentrant scratch buffer: needs a thread switch between two statements of a pure function; the property quantifies over inputs only',
    'C02-j': 'only shows when the driver reports a link error while the dispatcher is still inside the handler of the protocol-version answer and the '
             'application reconnects before that handler returns: every history with that race is folded into the listed C02 known finding '
             '(life:anomaly-after-error-reported-while-dispatching), so the stalled second attempt is not reported on its own',
    'C03-o': 'needs a device of the legacy protocol generation that nevertheless has extended-type (persistent) parameters; the generator keeps to '
             'tables a firmware can produce (listed assumption of C03: extended / persistent parameters only on protocol >= 4 - the extended type is '
             'asked for with a 16-bit index on the misc channel, which the legacy generation does not have)',
    'C02-o': 'only shows when a link error reported from inside the send of the parameter-table request (sent by the dispatcher thread itself) is '
             'processed by the hand-over thread before that send returns, and the application reconnects: the dispatcher is then mid-dispatch while '
             'the error is processed, which is the listed C02 race; everything observed under it is folded into that known finding (see C02-j)',
}


def sh(cmd, **kw):
    return subprocess.run(cmd, shell=True, stdout=subprocess.PIPE, stderr=subprocess.STDOUT, text=True, **kw)


def run_one(name):
    d = os.path.join(SEEDED, name)
    pid = name.split('-')[0]
    wt = tempfile.mkdtemp(prefix='seedre-')
    os.rmdir(wt)
    res = {'property': pid, 'name': name.split('-')[1]}
    try:
        assert sh('git -C /repo worktree add -q --detach %s HEAD' % wt).returncode == 0
        env = dict(os.environ, PYTHONPATH=wt)
        demo = os.path.join(d, 'demo.py')
        r = sh('cd %s && timeout 300 /venv/bin/python %s' % (wt, demo), env=env)
        res['demo_unchanged_exit'] = r.returncode
        r = sh('git -C %s apply %s' % (wt, os.path.join(d, 'patch.diff')))
        if r.returncode != 0:
            res['error'] = 'patch does not apply to current HEAD: ' + r.stdout[-300:]
            return name, res
        res['repo_head'] = sh('git -C /repo rev-parse --short HEAD').stdout.strip()
        r = sh('cd %s && /venv/bin/python -m pytest -q -p no:cacheprovider --timeout=900 test 2>&1 | tail -1' % wt, env=env)
        res['tests_with_change'] = r.stdout.strip()
        r = sh('cd %s && timeout 300 /venv/bin/python %s' % (wt, demo), env=env)
        res['demo_changed_exit'] = r.returncode
        res['demo_changed_tail'] = r.stdout.strip().splitlines()[-3:]
        res['checks'] = {}
        for cp in [pid] + OTHER_CHECK.get(name, []):
            r = sh('cd %s && /venv/bin/python check.py %s --tier quick' % (VERIF, cp), env=dict(os.environ, REPO=wt))
            lines = [l[:300] for l in r.stdout.splitlines() if l.strip().startswith('violation')]
            res['checks'][cp] = {'cmd': 'REPO=<worktree with change> /venv/bin/python check.py %s --tier quick' % cp, 'exit': r.returncode,
                                 'signatures': sorted(set(l.strip().split(' ')[1].rstrip(':') for l in lines))[:8], 'lines': lines[:4]}
        res['detected_by'] = [cp for cp, c in res['checks'].items() if c['exit'] == 1]
        res['detected'] = bool(res['detected_by'])
        res['confirmed'] = res['demo_unchanged_exit'] == 0 and res['demo_changed_exit'] not in (0, None) and '187 passed' in res['tests_with_change']
        if name in OUT_OF_REACH:
            res['out_of_reach'] = OUT_OF_REACH[name]
    finally:
        sh('git -C /repo worktree remove --force %s' % wt)
        shutil.rmtree(wt, ignore_errors=True)
        shutil.rmtree(os.path.join('/tmp', 'verif-trial-' + os.path.basename(wt)), ignore_errors=True)
    return name, res


def main():
    args = [a for a in sys.argv[1:] if not a.startswith('--')]
    jobs = int(sys.argv[sys.argv.index('--jobs') + 1]) if '--jobs' in sys.argv else 4
    if '--jobs' in sys.argv:
        args = [a for a in args if a != str(jobs)]
    names = sorted(n for n in os.listdir(SEEDED) if os.path.isdir(os.path.join(SEEDED, n)) and (not args or n in args))
    with ThreadPoolExecutor(max_workers=jobs) as ex:
        for name, res in ex.map(run_one, names):
            mp = os.path.join(SEEDED, name, 'meta.json')
            meta = json.load(open(mp)) if os.path.exists(mp) else {}
            meta['verification'] = res
            json.dump(meta, open(mp, 'w'), indent=1)
            print(name, 'confirmed' if res.get('confirmed') else 'NOT-CONFIRMED', 'detected by %s' % ','.join(res['detected_by']) if res.get('detected') else 'MISSED',
                  res.get('error', ''), [s for c in res.get('checks', {}).values() for s in c['signatures']][:3], flush=True)
    # index over everything stored
    rows = []
    for name in sorted(n for n in os.listdir(SEEDED) if os.path.isdir(os.path.join(SEEDED, n))):
        mp = os.path.join(SEEDED, name, 'meta.json')
        meta = json.load(open(mp)) if os.path.exists(mp) else {}
        v = meta.get('verification', {})
        needs = str(meta.get('needs', '')).replace('\n', ' ').replace('|', '/')
        sigs = [s for c in v.get('checks', {}).values() if c.get('exit') == 1 for s in c['signatures']]
        if not sigs and v.get('check_lines'):
            sigs = sorted(set(l.strip().split(' ')[1].rstrip(':') for l in v['check_lines'] if l.strip().startswith('violation')))
        det = ','.join(v.get('detected_by', [])) if 'detected_by' in v else (v.get('property') if v.get('detected') else '')
        rows.append((name, ', '.join(meta.get('files', [])) if isinstance(meta.get('files'), list) else str(meta.get('files', '')), needs[:160],
                     'yes' if v.get('confirmed') else 'no', det or ('out of reach' if name in OUT_OF_REACH else 'MISSED'), ', '.join(sigs)[:140]))
    with open(os.path.join(SEEDED, 'INDEX.md'), 'w') as f:
        f.write('# Seeded defects\n\nEach directory holds a change written by a sub-agent that saw only the property text and a scratch worktree of /repo '
                '(`patch.diff`), its demonstration (`demo.py`: exit 0 on the unchanged tree, non-zero with the change) and `meta.json` (what it needs to '
                'manifest, and the last verification record written by tools/reverify_seeds.py). "confirmed" = demo passes unchanged, fails with the change, '
                'and the repository tests still pass with the change. "caught by" = quick tier of that check exits 1 with REPO pointing at the changed tree.\n\n'
                '| seed | files | needs | confirmed | caught by | signatures |\n|---|---|---|---|---|---|\n')
        for r in rows:
            f.write('| %s |\n' % ' | '.join(r))
        n = len(rows)
        det = sum(1 for r in rows if r[4] not in ('MISSED', 'out of reach'))
        f.write('\n%d of %d stored changes are caught by a quick-tier check; %d are out of reach (reasons: tools/reverify_seeds.py OUT_OF_REACH, DESIGN.md 8.5).\n' % (
            det, n, sum(1 for r in rows if r[4] == 'out of reach')))
    return 0


if __name__ == '__main__':
    sys.exit(main())
