#!/usr/bin/env python3
"""Sensitivity pass: applies hand-written mutations (DESIGN.md section 3 "M" lists) one at a time to a scratch worktree of
/repo HEAD, runs the baseline tests and the quick check (REPO=<worktree>), and writes SENSITIVITY.md.

usage: tools/sensitivity.py [Cxx ...]      (default: all)
"""
import json
import os
import shutil
import subprocess
import sys
import tempfile
from concurrent.futures import ThreadPoolExecutor

VERIF = os.path.dirname(os.path.dirname(os.path.abspath(__file__)))

# (property, name, file, old, new)
M = [
    # C01
    ('C01', 'flip-up-bit-on-every-tx', 'cflib/crtp/radiodriver.py', "        if resp and resp.ack:\n            self._curr_up = 1 - self._curr_up", "        if resp:\n            self._curr_up = 1 - self._curr_up"),
    ('C01', 'down-bit-compared-with-up', 'cflib/crtp/radiodriver.py', "(resp.data[0] & 0x04) == (self._curr_down << 2)", "(resp.data[0] & 0x04) == (self._curr_up << 2)"),
    ('C01', 'retry-counter-off-by-one', 'cflib/crtp/radiodriver.py', "if (self._retry_before_disconnect == 0 and", "if (self._retry_before_disconnect == 1 and"),
    ('C01', 'accept-any-nego-reply', 'cflib/crtp/radiodriver.py', "if resp and resp.data and tuple(resp.data) == (\n                    0xff, 0x05, 0x01):", "if resp and resp.data:"),
    ('C01', 'ack-from-powerdet-bit', 'cflib/drivers/crazyradio.py', "ackIn.ack = (data[0] & 0x01) != 0", "ackIn.ack = (data[0] & 0x02) != 0"),
    ('C01', 'no-reset-of-retry-counter', 'cflib/crtp/radiodriver.py', "            self._retry_before_disconnect = _nr_of_retries\n\n            data = ackStatus.data", "            data = ackStatus.data"),
    # C02
    ('C02', 'swap-initialized-connected-branches', 'cflib/crazyflie/__init__.py', "        if (self.state == State.INITIALIZED):\n            self.connection_failed.call(self.link_uri, errmsg)\n        elif (self.state == State.CONNECTED or\n                self.state == State.SETUP_FINISHED):", "        if (self.state == State.CONNECTED):\n            self.connection_failed.call(self.link_uri, errmsg)\n        elif (self.state == State.INITIALIZED or\n                self.state == State.SETUP_FINISHED):"),
    ('C02', 'drop-link-none-on-error', 'cflib/crazyflie/__init__.py', "        if (self.link is not None):\n            self.link.close()\n        self.link = None\n        self._cancel_answer_timers()\n        if (self.state == State.INITIALIZED):", "        if (self.link is not None):\n            self.link.close()\n        self._cancel_answer_timers()\n        if (self.state == State.INITIALIZED):"),
    ('C02', 'sync-keeps-callbacks', 'cflib/crazyflie/syncCrazyflie.py', "    def _disconnected(self, link_uri):\n        self._remove_callbacks()\n", "    def _disconnected(self, link_uri):\n"),
    ('C02', 'connected-before-param-toc', 'cflib/crazyflie/__init__.py', "        logger.info('Memories finished updating')\n        self.param.refresh_toc(self._param_toc_updated_cb, self._toc_cache)", "        logger.info('Memories finished updating')\n        self.connected.call(self.link_uri)\n        self.param.refresh_toc(self._param_toc_updated_cb, self._toc_cache)"),
    ('C02', 'no-connection-lost', 'cflib/crazyflie/__init__.py', "            self.disconnected.call(self.link_uri)\n            self.connection_lost.call(self.link_uri, errmsg)", "            self.disconnected.call(self.link_uri)"),
    # C03
    ('C03', 'last-index-off-by-one', 'cflib/crazyflie/toc.py', "if (self.requested_index < (self.nbr_of_items - 1)):", "if (self.requested_index < (self.nbr_of_items - 2)):"),
    ('C03', 'v2-count-as-byte', 'cflib/crazyflie/toc.py', "                [self.nbr_of_items, self._crc] = struct.unpack(\n                    '<HI', payload[:6])", "                [self.nbr_of_items, self._crc] = struct.unpack(\n                    '<BxI', payload[:6])"),
    ('C03', 'extended-bit-wrong', 'cflib/crazyflie/param.py', "self.extended = ((metadata & 0x10) != 0)", "self.extended = ((metadata & 0x20) != 0)"),
    ('C03', 'ro-bit-wrong', 'cflib/crazyflie/param.py', "if ((metadata & 0x40) != 0):", "if ((metadata & 0x80) != 0):"),
    ('C03', 'log-name-keeps-terminator', 'cflib/crazyflie/log.py', "self.name = naming[naming.find(zt) + 1:-1].decode('ISO-8859-1')", "self.name = naming[naming.find(zt) + 1:].decode('ISO-8859-1')"),
    # C04
    ('C04', 'uint16-packed-signed', 'cflib/crazyflie/param.py', "0x09: ('uint16_t', '<H'),", "0x09: ('uint16_t', '<h'),"),
    ('C04', 'release-on-any-read-reply', 'cflib/crazyflie/param.py', "            if (pk.channel == self._lock_channel and self._lock_pattern == release_pattern and\n                    pk is not None):", "            if (pk.channel != TOC_CHANNEL and\n                    pk is not None):"),
    ('C04', 'no-status-strip', 'cflib/crazyflie/param.py', "                if pk.channel == READ_CHANNEL:\n                    pk.data = pk.data[:2] + pk.data[3:]", "                if pk.channel == READ_CHANNEL:\n                    pk.data = pk.data"),
    ('C04', 'ro-not-refused', 'cflib/crazyflie/param.py', "        elif element.access == ParamTocElement.RO_ACCESS:", "        elif element.access == 7:"),
    # C05
    ('C05', 'size-limit-off-by-one', 'cflib/crazyflie/log.py', "if (size <= LogConfig.MAX_LEN and", "if (size < LogConfig.MAX_LEN and"),
    ('C05', 'period-upper-inclusive', 'cflib/crazyflie/log.py', "(logconf.period > 0 and logconf.period < 0xFF)):", "(logconf.period > 0 and logconf.period <= 0xFF)):"),
    ('C05', 'uint16-decoded-signed', 'cflib/crazyflie/log.py', "0x02: ('uint16_t', '<H', 2),", "0x02: ('uint16_t', '<h', 2),"),
    ('C05', 'timestamp-byte-order', 'cflib/crazyflie/log.py', "timestamps[0] | timestamps[1] << 8 | timestamps[2] << 16)", "timestamps[2] | timestamps[1] << 8 | timestamps[0] << 16)"),
    ('C05', 'append-split-off-by-one', 'cflib/crazyflie/log.py', "if pk.available_data_size() >= size_to_add:", "if pk.available_data_size() > size_to_add:"),
    ('C05', 'stop-does-not-clear-started', 'cflib/crazyflie/log.py', "                    if block:\n                        block.started = False\n\n            if (cmd == CMD_DELETE_BLOCK):", "                    if block:\n                        pass\n\n            if (cmd == CMD_DELETE_BLOCK):"),
    # C06
    ('C06', 'read-chunk-21', 'cflib/crazyflie/mem/__init__.py', "    MAX_DATA_LENGTH = 20\n", "    MAX_DATA_LENGTH = 26\n"),
    ('C06', 'write-chunk-too-big', 'cflib/crazyflie/mem/__init__.py', "    MAX_DATA_LENGTH = 25\n", "    MAX_DATA_LENGTH = 26\n"),
    ('C06', 'skip-failed-callbacks-on-disconnect', 'cflib/crazyflie/mem/__init__.py', "        self._call_all_failed_callbacks()\n        self._clear_state()", "        self._clear_state()"),
    ('C06', 'read-failure-keeps-record', 'cflib/crazyflie/mem/__init__.py', "                logger.debug('Status {}: read failed.'.format(status))\n                self._read_requests.pop(id, None)", "                logger.debug('Status {}: read failed.'.format(status))"),
    ('C06', 'write-address-advance-constant', 'cflib/crazyflie/mem/__init__.py', "            self._current_addr += self._addr_add\n            self._write_new_chunk()", "            self._current_addr += _WriteRequest.MAX_DATA_LENGTH\n            self._write_new_chunk()"),
    # C07
    ('C07', 'drop-channel-mask', 'cflib/crazyflie/__init__.py', "cb.channel == (pk.channel & cb.channel_mask)]:", "cb.channel == pk.channel]:"),
    ('C07', 'reverse-order', 'cflib/crazyflie/__init__.py', "            for cb in [cb for cb in self.cb\n", "            for cb in [cb for cb in reversed(self.cb)\n"),
    ('C07', 'caller-iterates-live-list', 'cflib/utils/callbacks.py', "        copy_of_callbacks = list(self.callbacks)", "        copy_of_callbacks = self.callbacks"),
    # C08
    ('C08', 'swap-vx-vy-hover', 'cflib/crazyflie/commander.py', "            pk.data = struct.pack('<Bffff', TYPE_HOVER,\n                                  vx, vy, yawrate, zdistance)", "            pk.data = struct.pack('<Bffff', TYPE_HOVER,\n                                  vy, vx, yawrate, zdistance)"),
    ('C08', 'goto-version-boundary', 'cflib/crazyflie/high_level_commander.py', "        if self._cf.platform.get_protocol_version() < 8:\n            if linear:", "        if self._cf.platform.get_protocol_version() <= 8:\n            if linear:"),
    ('C08', 'lost-legacy-yaw-negation', 'cflib/crazyflie/commander.py', "            pk.data = struct.pack('<Bffff', TYPE_ZDISTANCE_LEGACY,\n                                  roll, pitch, -yawrate, zdistance)", "            pk.data = struct.pack('<Bffff', TYPE_ZDISTANCE_LEGACY,\n                                  roll, pitch, yawrate, zdistance)"),
    ('C08', 'thrust-clipped', 'cflib/crazyflie/commander.py', "        if thrust > 0xFFFF or thrust < 0:\n            raise ValueError('Thrust must be between 0 and 0xFFFF')", "        thrust = min(max(thrust, 0), 0xFFFF)"),
    ('C08', 'header-port-mask', 'cflib/crtp/crtpstack.py', "self.header = ((self._port & 0x0f) << 4 | 3 << 2 |", "self.header = ((self._port & 0x07) << 4 | 3 << 2 |"),
    # C09
    ('C09', 'matcher-window-inclusive', 'cflib/localization/lighthouse_sample_matcher.py', "if ts > (current.timestamp + max_time_diff):", "if ts >= (current.timestamp + max_time_diff / 2):"),
    ('C09', 'ippe-no-transpose', 'cflib/localization/lighthouse_initial_estimator.py', "        rot_1 = estimates_ref_bs[0].R.transpose()", "        rot_1 = estimates_ref_bs[0].R"),
    ('C09', 'bs-map-unsorted', 'cflib/localization/lighthouse_geometry_solver.py', "for index, id in enumerate(sorted(initial_guess_bs_poses.keys())):", "for index, id in enumerate(sorted(initial_guess_bs_poses.keys(), reverse=True)):"),
    ('C09', 'cross-product-swapped', 'cflib/localization/lighthouse_geometry_solver.py', "np.cross(v, points)", "np.cross(points, v)"),
    # C10
    ('C10', 'shortest-match', 'cflib/crazyflie/__init__.py', "                        if len(match) >= len(longest_match):", "                        if len(longest_match) == 0 or len(match) < len(longest_match):"),
    ('C10', 'cancel-all-matching', 'cflib/crazyflie/__init__.py', "                        match = data[0:len(p)]\n", "                        match = data[0:len(p)]\n                        self._answer_patterns[p].cancel()\n"),
    ('C10', 'no-cancel-on-close', 'cflib/crazyflie/__init__.py', "            self.link.close()\n            self.link = None\n        self._cancel_answer_timers()\n        self.disconnected.call(self.link_uri)", "            self.link.close()\n            self.link = None\n        self._answer_patterns = {}\n        self.disconnected.call(self.link_uri)"),
    ('C10', 'retry-on-reliable-link', 'cflib/crazyflie/__init__.py', "            if len(expected_reply) > 0 and not resend and \\\n                    link.needs_resending:", "            if len(expected_reply) > 0 and not resend:"),
    # C11
    ('C11', 'cache-persistent-instead-of-extended', 'cflib/crazyflie/toccache.py', "            encoded['extended'] = obj.extended", "            encoded['extended'] = obj.persistent"),
    ('C11', 'match-startswith', 'cflib/crazyflie/toccache.py', "            if (name.endswith(pattern)):", "            if (pattern[:4] in name):"),
    ('C11', 'exception-escapes', 'cflib/crazyflie/toccache.py', "            except Exception as exp:\n                logger.warning('Error while parsing cache file [%s]:%s',", "            except ValueError as exp:\n                logger.warning('Error while parsing cache file [%s]:%s',"),
    ('C11', 'writes-ro-cache', 'cflib/crazyflie/toccache.py', "        self._rw_cache = rw_cache\n", "        self._rw_cache = rw_cache or ro_cache\n"),
    # C12
    ('C12', 'buffer-count-off-by-one', 'cflib/bootloader/__init__.py', "            if ctr >= t_data.buffer_pages:", "            if ctr > t_data.buffer_pages:"),
    ('C12', 'wrong-target-page', 'cflib/bootloader/__init__.py', "                                               start_page + i - (ctr - 1),", "                                               start_page + i - ctr,"),
    ('C12', 'upload-26-bytes', 'cflib/bootloader/cloader.py', "            if count > 24:", "            if count > 26:"),
    ('C12', 'size-check-ge', 'cflib/bootloader/__init__.py', "        if len(image) > ((t_data.flash_pages - start_page) *\n                         t_data.page_size):", "        if len(image) > ((t_data.flash_pages - start_page + 1) *\n                         t_data.page_size):"),
    ('C12', 'continue-after-failed-flash', 'cflib/bootloader/__init__.py', "                        print('\\nError during flash operation (code %d). '\n                              'Maybe wrong radio link?' %\n                              self._cload.error_code)\n                    raise Exception()", "                        print('\\nError during flash operation (code %d). '\n                              'Maybe wrong radio link?' %\n                              self._cload.error_code)"),
    # C13
    ('C13', 'fp16-exponent-bias', 'cflib/utils/encoding.py', "    e += 127 - 15\n", "    e += 127 - 16\n"),
    ('C13', 'quat-no-rounding', 'cflib/utils/encoding.py', "mag = int(((1 << 9) - 1) * (abs(quat_n[i]) / M_SQRT1_2) + 0.5)", "mag = int(((1 << 9) - 1) * (abs(quat_n[i]) / M_SQRT1_2) + 2.6)"),
    ('C13', 'led-green-shift', 'cflib/crazyflie/mem/led_driver_memory.py', "tmp = (int(R5) << 11) | (int(G6) << 5) | (int(B5) << 0)", "tmp = (int(R5) << 11) | (int(G6) << 6) | (int(B5) << 0)"),
    ('C13', 'yaw-radians', 'cflib/crazyflie/mem/trajectory_memory.py', "        return int(math.degrees(angle_rad) * 10)", "        return int(angle_rad * 10)"),
    ('C13', 'range-stream-double', 'cflib/crazyflie/localization.py', "anchor_id, distance = struct.unpack('<Bf', raw_data[:5])", "anchor_id, distance = struct.unpack('<Bi', raw_data[:5])"),
    # C14
    ('C14', 'eeprom-checksum-skips-last', 'cflib/crazyflie/mem/i2c_element.py', "if self._checksum256(data[:len(data) - 1]) == \\", "if self._checksum256(data[:len(data) - 2]) + data[len(data) - 2] * 0 == \\"),
    ('C14', 'ow-crc-not-checked', 'cflib/crazyflie/mem/ow_element.py', "        if start == 0xEB and crc == test_crc:", "        if start == 0xEB:"),
    ('C14', 'lh-calib-uid-order', 'cflib/crazyflie/mem/lighthouse_memory.py', "        data += struct.pack('<L?', self.uid, self.valid)", "        data += struct.pack('>L?', self.uid, self.valid)"),
    ('C14', 'deck-name-truncated', 'cflib/crazyflie/mem/deck_memory.py', "struct.unpack('<LLL18s', data[2:])", "struct.unpack('<LLL17sx', data[2:])"),
    ('C14', 'address-high-byte-lost', 'cflib/crazyflie/mem/i2c_element.py', "                self.elements['radio_address'] >> 32,", "                (self.elements['radio_address'] >> 32) & 0x7F,"),
    # C15
    ('C15', 'tan-sign', 'cflib/localization/lighthouse_bs_vector.py', "return self._lh_v1_horiz_angle + math.asin(self._q() * math.tan(-self.T))", "return self._lh_v1_horiz_angle + math.asin(self._q() * math.tan(self.T))"),
    ('C15', 'from-cart-swapped', 'cflib/localization/lighthouse_bs_vector.py', "lh_v1_vert_angle = math.atan2(cart_vector[2], cart_vector[0])", "lh_v1_vert_angle = math.atan2(cart_vector[2], cart_vector[1])"),
    ('C15', 'inverse-no-transpose', 'cflib/localization/lighthouse_types.py', "        return np.dot(np.transpose(self.rot_matrix), point - self.translation)", "        return np.dot(self.rot_matrix, point - self.translation)"),
    ('C15', 'drop-nan-to-num', 'cflib/localization/lighthouse_geometry_solver.py', "            v = np.nan_to_num(v)", "            v = v"),
    # C16
    ('C16', 'flip-about-y', 'cflib/localization/lighthouse_system_aligner.py', "flip_around_x_axis = Pose.from_rot_vec(R_vec=(np.pi, 0.0, 0.0))", "flip_around_x_axis = Pose.from_rot_vec(R_vec=(0.0, np.pi, 0.0))"),
    ('C16', 'scale-skips-cf-poses', 'cflib/localization/lighthouse_system_scaler.py', "        for pose in cf_scaled:\n            pose.scale(scale_factor)", "        for pose in cf_scaled[1:]:\n            pose.scale(scale_factor)"),
    ('C16', 'scale-modifies-input', 'cflib/localization/lighthouse_system_scaler.py', "        bs_scaled = {bs_id: copy.copy(pose) for bs_id, pose in bs_poses.items()}", "        bs_scaled = {bs_id: pose for bs_id, pose in bs_poses.items()}"),
    ('C16', 'factor-inverted', 'cflib/localization/lighthouse_system_scaler.py', "        scale_factor = expected_diagonal / estimated_diagonal", "        scale_factor = estimated_diagonal / expected_diagonal"),
    # C17
    ('C17', 'no-notify-stop', 'cflib/positioning/motion_commander.py', "            self._cf.commander.send_notify_setpoint_stop()\n", "            pass\n"),
    ('C17', 'right-sign', 'cflib/positioning/motion_commander.py', "        self.move_distance(0.0, -distance_m, 0.0, velocity)", "        self.move_distance(0.0, distance_m, 0.0, velocity)"),
    ('C17', 'hl-position-not-updated', 'cflib/positioning/position_hl_commander.py', "            self._x = x\n            self._y = y\n            self._z = z", "            self._x = x\n            self._z = z"),
    ('C17', 'hl-duration-wrong-velocity', 'cflib/positioning/position_hl_commander.py', "            duration_s = distance / self._velocity(velocity)\n            self._hl_commander.go_to(x, y, z, 0, duration_s)", "            duration_s = distance / self._default_velocity\n            self._hl_commander.go_to(x, y, z, 0, duration_s)"),
    ('C17', 'circle-rate', 'cflib/positioning/motion_commander.py', "        circumference = 2 * radius_m * math.pi\n        rate = 360.0 * velocity / circumference\n\n        self._set_vel_setpoint(velocity, 0.0, 0.0, -rate)", "        circumference = radius_m * math.pi\n        rate = 360.0 * velocity / circumference\n\n        self._set_vel_setpoint(velocity, 0.0, 0.0, -rate)"),
    # C18
    ('C18', 'length-big-endian', 'cflib/cpx/transports.py', "size = struct.unpack('H', self._readData(2))[0]", "size = struct.unpack('>H', self._readData(2))[0]"),
    ('C18', 'target-mask', 'cflib/cpx/__init__.py', "self.destination = CPXTarget(targetsAndFlags & 0x07)", "self.destination = CPXTarget(targetsAndFlags & 0x03 or 4)"),
    ('C18', 'queue-by-destination', 'cflib/cpx/__init__.py', "                    self._rxQueues[packet.function.value].put(packet)", "                    self._rxQueues[list(self._rxQueues)[0]].put(packet)"),
    ('C18', 'last-packet-flag-lost', 'cflib/cpx/__init__.py', "        self.lastPacket = targetsAndFlags & 0x40 != 0", "        self.lastPacket = False"),
    # C19
    ('C19', 'join-only-first', 'cflib/crazyflie/swarm.py', "        for thread in threads:\n            thread.join()", "        for thread in threads[:1]:\n            thread.join()"),
    ('C19', 'last-error-chained', 'cflib/crazyflie/swarm.py', "            first_error = reporter.errors[0]", "            first_error = Exception('generic')"),
    ('C19', 'is-open-before-opening', 'cflib/crazyflie/swarm.py', "            self.parallel_safe(lambda scf: scf.open_link())\n            self._is_open = True", "            self._is_open = True\n            self.parallel_safe(lambda scf: scf.open_link())"),
    ('C19', 'no-close-on-failed-open', 'cflib/crazyflie/swarm.py', "        except Exception as e:\n            self.close_links()\n            raise e", "        except Exception as e:\n            raise e"),
    # C20
    ('C20', 'default-channel', 'cflib/crtp/radiodriver.py', "        channel = 2\n        if len(parsed_path) > 0:", "        channel = 80\n        if len(parsed_path) > 0:"),
    ('C20', 'address-byte-order', 'cflib/crtp/radiodriver.py', "            new_addr = struct.unpack('<BBBBB', binascii.unhexlify(addr))\n            address = new_addr\n", "            new_addr = struct.unpack('<BBBBB', binascii.unhexlify(addr))[::-1]\n            address = new_addr\n"),
    ('C20', 'usb-claims-everything', 'cflib/crtp/usbdriver.py', "        uri_data = re.search('^usb://([0-9]+)$',\n                             uri)\n        if not uri_data:\n            raise WrongUriType('Not a radio URI')", "        uri_data = re.search('^usb://([0-9]+)$',\n                             uri)\n        if not uri_data:\n            raise Exception('Not a radio URI')"),
    ('C20', 'rate-1m-parsed-as-2m', 'cflib/crtp/radiodriver.py', "            if parsed_path[1] == '1M':\n                datarate = Crazyradio.DR_1MPS\n            if parsed_path[1] == '2M':", "            if parsed_path[1] == '1M':\n                datarate = Crazyradio.DR_2MPS\n            if parsed_path[1] == '2M':"),
]


# mutations that turned out to be equivalent (no observable behaviour changes): kept in the table with the reason
EQUIVALENT = {
    ('C05', 'append-split-off-by-one'): 'after the type byte the free space is 27-3k bytes, never exactly 2: >= and > agree',
    ('C06', 'write-address-advance-constant'): 'the address only advances when more data follows, and then the chunk just written was a full one',
    ('C09', 'bs-map-unsorted'): 'the id<->index map is used consistently in both directions, any bijection gives the same answer',
    ('C18', 'target-mask'): 'differs only for target values 0 and 5..7, which are not CPXTarget members (both versions raise or map the same for 1..4)',
    ('C19', 'is-open-before-opening'): 'close_links() in the failure path resets the flag, the order is not observable',
}


def sh(cmd, **kw):
    return subprocess.run(cmd, shell=True, stdout=subprocess.PIPE, stderr=subprocess.STDOUT, text=True, **kw)


def run_one(m):
    pid, name, path, old, new = m
    wt = tempfile.mkdtemp(prefix='sens-')
    os.rmdir(wt)
    r = {'property': pid, 'name': name, 'file': path}
    try:
        assert sh('git -C /repo worktree add -q --detach %s HEAD' % wt).returncode == 0
        fn = os.path.join(wt, path)
        src = open(fn).read()
        if src.count(old) != 1:
            r['status'] = 'mutation does not apply (%d matches)' % src.count(old)
            return r
        open(fn, 'w').write(src.replace(old, new))
        t = sh('cd %s && /venv/bin/python -m pytest -q -x -p no:cacheprovider --timeout=900 test 2>&1 | tail -1' % wt, env=dict(os.environ, PYTHONPATH=wt))
        r['tests'] = t.stdout.strip()
        c = sh('cd %s && /venv/bin/python check.py %s --tier quick' % (VERIF, pid), env=dict(os.environ, REPO=wt))
        r['check_exit'] = c.returncode
        lines = [l for l in c.stdout.splitlines() if l.strip().startswith('violation')]
        r['signatures'] = sorted(set(l.strip().split(' ')[1].rstrip(':') for l in lines))[:6]
        r['status'] = 'DETECTED' if c.returncode == 1 else ('harness-error' if c.returncode == 2 else 'MISSED')
        if r['status'] == 'MISSED' and (pid, name) in EQUIVALENT:
            r['status'] = 'equivalent mutant'
            r['signatures'] = [EQUIVALENT[(pid, name)]]
    finally:
        sh('git -C /repo worktree remove --force %s' % wt)
        shutil.rmtree(wt, ignore_errors=True)
        shutil.rmtree(os.path.join('/tmp', 'verif-trial-' + os.path.basename(wt)), ignore_errors=True)
    return r


def main():
    want = set(a.upper() for a in sys.argv[1:])
    todo = [m for m in M if not want or m[0] in want]
    with ThreadPoolExecutor(max_workers=3) as ex:
        res = list(ex.map(run_one, todo))
    old = {}
    jf = os.path.join(VERIF, 'sensitivity.json')
    if os.path.exists(jf):
        for r in json.load(open(jf)):
            old[(r['property'], r['name'])] = r
    for r in res:
        old[(r['property'], r['name'])] = r
    allr = [old[k] for k in sorted(old)]
    json.dump(allr, open(jf, 'w'), indent=1)
    with open(os.path.join(VERIF, 'SENSITIVITY.md'), 'w') as f:
        f.write('# Sensitivity pass\n\nHand-written mutations (tools/sensitivity.py, from the "M" lists of DESIGN.md section 3) applied one at a time to a scratch '
                'worktree of /repo HEAD; "tests" is the repository suite on the mutated tree, "check" the quick tier of the property\'s check run with '
                'REPO=<worktree>.\n\n| property | mutation | file | tests | check | signatures |\n|---|---|---|---|---|---|\n')
        for r in allr:
            f.write('| %s | %s | %s | %s | %s | %s |\n' % (r['property'], r['name'], r['file'], r.get('tests', '-').replace('|', '/')[:40], r.get('status'),
                                                       ', '.join(r.get('signatures', []))[:160]))
        det = sum(1 for r in allr if r.get('status') == 'DETECTED')
        eq = sum(1 for r in allr if r.get('status') == 'equivalent mutant')
        f.write('\n%d of %d mutations detected by the quick tier; %d are equivalent mutants (reason in the last column).\n' % (det, len(allr), eq))
    for r in res:
        print(r['property'], r['name'], r.get('status'), r.get('tests', '')[:30], r.get('signatures'))


if __name__ == '__main__':
    main()
