"""C08: every command packet decodes to the caller's arguments under the firmware wire layout."""
import math
import struct
from fractions import Fraction

import numpy as np
from hypothesis import strategies as st

from vlib.runner import Outcome, Sub

PROPERTY = 'C08'
LEVEL = 'exploration'
SHARDS = {'quick': 4, 'thorough': 16}
RULE = ('Hypothesis draws (command, arguments, negotiated protocol version from {-1,0,3,4,7,8,9,10}, X-mode flag). The real Commander / '
        'HighLevelCommander / Localization / Extpos / PlatformService / LoPoAnchor objects are driven over a recording Crazyflie whose '
        'protocol version is negotiated through the real PlatformService callbacks. Oracle: independent wire table (port, channel, '
        'struct layout, sign rule per version) restated in this file; floats compare bitwise at float32, fixed point within < 1 unit; '
        'unrepresentable arguments must raise and emit nothing. Header sub-check enumerates all 16x4 (port, channel) pairs through '
        'constructor, setters and set_header. Non-trivial = argument at a field limit / special float, version adjacent to a '
        'legacy/new switch (7,8,9), or X-mode on.')
ASSUMPTIONS = ['wire layouts and sign conventions are those of the pinned library sources restated independently here (the check detects drift; '
               'it cannot consult firmware)', 'base-station lists for lighthouse persist are duplicate-free',
               'fixed-point inputs whose exact product lies within 1e-6 of the int16 limit are excluded (float rounding ambiguity)']

VERSIONS = [-1, 0, 3, 4, 7, 8, 9, 10]
F32MAX = 3.4028234663852886e38


def _f32bits(x):
    return struct.pack('<f', x)


class _RecCf:
    def __init__(self):
        self.sent = []
        self.snap = []
        self.cbs = []

    def add_port_callback(self, port, cb):
        self.cbs.append((port, cb))

    def send_packet(self, pk, expected_reply=(), resend=False, timeout=0.2):
        # the one thing Crazyflie.send_packet does before handing a packet to the link: the packet's own size check
        if not pk.is_data_size_valid():
            raise Exception('Data part of packet is too large')
        self.sent.append(pk)
        self.snap.append((pk, pk.header, bytes(pk.data)))     # the attribute, as the link drivers read it


def _negotiate(cf, cbs, version, out):
    from cflib.crtp.crtpstack import CRTPPacket
    fetched = []
    n0 = len(cf.sent)
    cf.platform.fetch_platform_informations(lambda: fetched.append(1))
    pk = CRTPPacket()
    pk.set_header(15, 1)
    if version < 0:
        pk.data = b'some other firmware\0'
        cbs[15](pk)
    else:
        pk.data = b'Bitcraze Crazyflie\0'
        cbs[15](pk)
        pk2 = CRTPPacket()
        pk2.set_header(13, 1)
        pk2.data = bytes([0, version])
        cbs[13](pk2)
    if fetched != [1] or cf.platform.get_protocol_version() != version:
        out.fail('nego:result', 'fetched=%r version=%r want %r' % (fetched, cf.platform.get_protocol_version(), version))


def _make(version, xmode, out, prev_version=None):
    from cflib.crazyflie.commander import Commander
    from cflib.crazyflie.extpos import Extpos
    from cflib.crazyflie.high_level_commander import HighLevelCommander
    from cflib.crazyflie.localization import Localization
    from cflib.crazyflie.platformservice import PlatformService
    from cflib.crtp.crtpstack import CRTPPacket
    cf = _RecCf()
    cf.platform = PlatformService(cf)
    cf.commander = Commander(cf)
    cf.high_level_commander = HighLevelCommander(cf)
    cf.loc = Localization(cf)
    cf.extpos = Extpos(cf)
    cf.commander.set_client_xmode(xmode)
    # negotiate the version through the real callbacks
    fetched = []
    cf.platform.fetch_platform_informations(lambda: fetched.append(1))
    cbs = dict((p, cb) for p, cb in cf.cbs if p in (13, 15))
    if len(cf.sent) != 1 or cf.sent[0].port != 15 or cf.sent[0].channel != 1:
        out.fail('nego:source-request', repr([(p.port, p.channel, bytes(p.data)) for p in cf.sent]))
    pk = CRTPPacket()
    pk.set_header(15, 1)
    if version < 0:
        pk.data = b'some other firmware\0'
        cbs[15](pk)
    else:
        pk.data = b'Bitcraze Crazyflie\0'
        cbs[15](pk)
        if len(cf.sent) != 2 or (cf.sent[1].port, cf.sent[1].channel, bytes(cf.sent[1].data)) != (13, 1, b'\0'):
            out.fail('nego:version-request', repr([(p.port, p.channel, bytes(p.data)) for p in cf.sent]))
        pk2 = CRTPPacket()
        pk2.set_header(13, 1)
        pk2.data = bytes([0, version])
        cbs[13](pk2)
    if fetched != [1] or cf.platform.get_protocol_version() != version:
        out.fail('nego:result', 'fetched=%r version=%r want %r' % (fetched, cf.platform.get_protocol_version(), version))
    if prev_version is not None:
        # the same Crazyflie object had been connected to another firmware before: negotiate again
        _negotiate(cf, cbs, prev_version, out)
        _negotiate(cf, cbs, version, out)
    del cf.sent[:]
    del cf.snap[:]
    return cf


def _fits_f32(x):
    return math.isnan(x) or math.isinf(x) or abs(x) <= F32MAX or np.isfinite(np.float32(x))


class Spec:
    """expected = None (no packet) or (port, channel, [(fmt, value, kind)]) kind: 'f' float32 bitwise, 'i' exact int, 'fx' fixed point"""


def _f(v):
    return ('f', float(v), 'f')


def _u8(v):
    return ('B', int(v), 'i')


def _expect(cmd, a, version, xmode):
    """Returns ('raise',) | ('none',) | ('pk', port, channel, fields, post) from the independent table."""
    legacy8 = version <= 8
    if cmd == 'setpoint':
        roll, pitch, yawrate, thrust = a
        if not (0 <= thrust <= 0xFFFF) or thrust != int(thrust):
            return ('raise',)       # outside the 16-bit field, or not a whole number: cannot be represented
        if xmode:
            return ('pk', 3, 0, [('f', (roll, pitch), 'xmode'), _f(yawrate), ('H', thrust, 'i')])
        return ('pk', 3, 0, [_f(roll), _f(-pitch), _f(yawrate), ('H', thrust, 'i')])
    if cmd == 'notify_stop':
        return ('pk', 7, 1, [_u8(0), ('I', a[0], 'i')])
    if cmd == 'stop_setpoint':
        return ('pk', 7, 0, [_u8(0)])
    if cmd == 'velocity_world':
        vx, vy, vz, yr = a
        return ('pk', 7, 0, [_u8(1 if legacy8 else 8), _f(vx), _f(vy), _f(vz), _f(-yr if legacy8 else yr)])
    if cmd == 'zdistance':
        r, p, yr, z = a
        return ('pk', 7, 0, [_u8(2 if legacy8 else 9), _f(r), _f(p), _f(-yr if legacy8 else yr), _f(z)])
    if cmd == 'hover':
        vx, vy, yr, z = a
        return ('pk', 7, 0, [_u8(5 if legacy8 else 10), _f(vx), _f(vy), _f(-yr if legacy8 else yr), _f(z)])
    if cmd == 'position':
        return ('pk', 7, 0, [_u8(7)] + [_f(v) for v in a])
    if cmd == 'full_state':
        pos, vel, acc, quat, rr, pr, yr = a
        fields = [_u8(6)]
        for v in list(pos) + list(vel) + list(acc):
            fields.append(('h', v, 'fx'))
        fields.append(('I', quat, 'quat'))
        for v in (rr, pr, yr):
            fields.append(('h', v, 'fx'))
        return ('pk', 7, 0, fields)
    if cmd == 'hl_group_mask':
        return ('pk', 8, 0, [_u8(0), _u8(a[0])])
    if cmd in ('hl_takeoff', 'hl_land'):
        h, dur, gm, yaw = a
        return ('pk', 8, 0, [_u8(7 if cmd == 'hl_takeoff' else 8), _u8(gm), _f(h), _f(0.0 if yaw is None else yaw),
                             _u8(1 if yaw is None else 0), _f(dur)])
    if cmd == 'hl_stop':
        return ('pk', 8, 0, [_u8(3), _u8(a[0])])
    if cmd == 'hl_goto':
        x, y, z, yaw, dur, rel, lin, gm = a
        if version < 8:
            return ('pk', 8, 0, [_u8(4), _u8(gm), _u8(rel), _f(x), _f(y), _f(z), _f(yaw), _f(dur)])
        return ('pk', 8, 0, [_u8(12), _u8(gm), _u8(rel), _u8(lin), _f(x), _f(y), _f(z), _f(yaw), _f(dur)])
    if cmd == 'hl_spiral':
        angle, r0, rF, ascent, dur, side, cw, gm = a
        if version < 8:
            return ('none',)
        if angle > 2 * math.pi:
            angle = 2 * math.pi
        elif angle < -2 * math.pi:
            angle = -2 * math.pi
        if r0 < 0:
            r0 = 0.0
        if rF < 0:
            rF = 0.0
        return ('pk', 8, 0, [_u8(11), _u8(gm), _u8(side), _u8(cw), _f(angle), _f(r0), _f(rF), _f(ascent), _f(dur)])
    if cmd == 'hl_start_traj':
        tid, ts, rel, rev, gm = a
        return ('pk', 8, 0, [_u8(5), _u8(gm), _u8(rel), _u8(rev), _u8(tid), _f(ts)])
    if cmd == 'hl_define_traj':
        tid, off, n, typ = a
        return ('pk', 8, 0, [_u8(6), _u8(tid), _u8(1), _u8(typ), ('I', off, 'i'), _u8(n)])
    if cmd in ('extpos', 'loc_extpos'):
        return ('pk', 6, 0, [_f(v) for v in a])
    if cmd in ('extpose', 'loc_extpose'):
        return ('pk', 6, 1, [_u8(8)] + [_f(v) for v in a])
    if cmd == 'emergency_stop':
        return ('pk', 6, 1, [_u8(3)])
    if cmd == 'emergency_watchdog':
        return ('pk', 6, 1, [_u8(4)])
    if cmd == 'lh_persist':
        geo, cal = a
        if any(b < 0 or b > 15 for b in geo + cal):
            return ('raise',)
        return ('pk', 6, 1, [_u8(11), ('H', sum(1 << b for b in geo), 'i'), ('H', sum(1 << b for b in cal), 'i')])
    if cmd == 'arming':
        return ('pk', 13, 0, [_u8(1), _u8(1 if a[0] else 0)])
    if cmd == 'crash_recovery':
        return ('pk', 13, 0, [_u8(2)])
    if cmd == 'lpp_position':
        aid, x, y, z = a
        return ('pk', 6, 1, [_u8(2), _u8(aid), _u8(1), _f(x), _f(y), _f(z)])
    if cmd == 'lpp_reboot':
        return ('pk', 6, 1, [_u8(2), _u8(a[0]), _u8(2), _u8(a[1])])
    if cmd == 'lpp_mode':
        return ('pk', 6, 1, [_u8(2), _u8(a[0]), _u8(3), _u8(a[1])])
    if cmd == 'lpp_raw':
        dest, n = a
        if 2 + n > 30:
            return ('raise',)       # does not fit the 30 payload bytes of a packet
        return ('pk', 6, 1, [_u8(2), _u8(dest)] + [_u8((7 * k + 1) & 0xff) for k in range(n)])
    raise AssertionError(cmd)


def _call(cf, cmd, a):
    c, h = cf.commander, cf.high_level_commander
    if cmd == 'setpoint':
        return c.send_setpoint(*a)
    if cmd == 'notify_stop':
        return c.send_notify_setpoint_stop(a[0])
    if cmd == 'stop_setpoint':
        return c.send_stop_setpoint()
    if cmd == 'velocity_world':
        return c.send_velocity_world_setpoint(*a)
    if cmd == 'zdistance':
        return c.send_zdistance_setpoint(*a)
    if cmd == 'hover':
        return c.send_hover_setpoint(*a)
    if cmd == 'position':
        return c.send_position_setpoint(*a)
    if cmd == 'full_state':
        return c.send_full_state_setpoint(*a)
    if cmd == 'hl_group_mask':
        return h.set_group_mask(a[0])
    if cmd == 'hl_takeoff':
        return h.takeoff(a[0], a[1], group_mask=a[2], yaw=a[3])
    if cmd == 'hl_land':
        return h.land(a[0], a[1], group_mask=a[2], yaw=a[3])
    if cmd == 'hl_stop':
        return h.stop(a[0])
    if cmd == 'hl_goto':
        return h.go_to(a[0], a[1], a[2], a[3], a[4], relative=a[5], linear=a[6], group_mask=a[7])
    if cmd == 'hl_spiral':
        return h.spiral(a[0], a[1], a[2], a[3], a[4], sideways=a[5], clockwise=a[6], group_mask=a[7])
    if cmd == 'hl_start_traj':
        return h.start_trajectory(a[0], time_scale=a[1], relative=a[2], reversed=a[3], group_mask=a[4])
    if cmd == 'hl_define_traj':
        return h.define_trajectory(a[0], a[1], a[2], type=a[3])
    if cmd == 'extpos':
        return cf.extpos.send_extpos(*a)
    if cmd == 'loc_extpos':
        return cf.loc.send_extpos(list(a))
    if cmd == 'extpose':
        return cf.extpos.send_extpose(*a)
    if cmd == 'loc_extpose':
        return cf.loc.send_extpose(list(a[:3]), list(a[3:]))
    if cmd == 'emergency_stop':
        return cf.loc.send_emergency_stop()
    if cmd == 'emergency_watchdog':
        return cf.loc.send_emergency_stop_watchdog()
    if cmd == 'lh_persist':
        return cf.loc.send_lh_persist_data_packet(list(a[0]), list(a[1]))
    if cmd == 'arming':
        return cf.platform.send_arming_request(a[0])
    if cmd == 'crash_recovery':
        return cf.platform.send_crash_recovery_request()
    from lpslib.lopoanchor import LoPoAnchor
    anchor = LoPoAnchor(cf)
    if cmd == 'lpp_position':
        return anchor.set_position(a[0], (a[1], a[2], a[3]))
    if cmd == 'lpp_reboot':
        return anchor.reboot(a[0], a[1])
    if cmd == 'lpp_mode':
        return anchor.set_mode(a[0], a[1])
    if cmd == 'lpp_raw':
        return cf.loc.send_short_lpp_packet(a[0], bytes((7 * k + 1) & 0xff for k in range(a[1])))
    raise AssertionError(cmd)


def _ref_decompress(comp):
    mask = 511
    il = comp >> 30
    q = [0.0] * 4
    ss = 0.0
    for i in (3, 2, 1, 0):
        if i != il:
            mag = comp & mask
            neg = (comp >> 9) & 1
            comp >>= 10
            q[i] = mag / 511.0 / math.sqrt(2)
            if neg:
                q[i] = -q[i]
            ss += q[i] * q[i]
    q[il] = math.sqrt(max(0.0, 1.0 - ss))
    return q


def _borderline(exact):
    a = abs(exact)
    return abs(a - 32768) < Fraction(1, 10 ** 6) or abs(a - 32769) < Fraction(1, 10 ** 6)


def run_command(case):
    import io
    import contextlib
    import warnings
    out = Outcome()
    cmd, a, version, xmode = case['cmd'], _thaw(case['args']), case['version'], case['xmode']
    cf = _make(version, xmode, out, case.get('prev_version'))
    # commands issued earlier on the same objects must not be disturbed by the later ones
    pre_snap = []
    for pc in case.get('pre', []):
        try:
            with warnings.catch_warnings(), contextlib.redirect_stdout(io.StringIO()):
                warnings.simplefilter('ignore')
                _call(cf, pc['cmd'], _thaw(pc['args']))
        except Exception:  # noqa
            pass
    pre_snap = list(cf.snap)
    del cf.sent[:]
    exp = _expect(cmd, a, version, xmode)
    out.feat('cmd-' + cmd, 'v%d' % version)
    flat = _flatten(a)
    special = any(isinstance(v, float) and (math.isnan(v) or math.isinf(v) or abs(v) > 1e30 or (v != 0 and abs(v) < 1e-30)) for v in flat)
    out.nontrivial = special or version in (7, 8, 9) or bool(xmode) or exp[0] == 'raise'
    if special:
        out.feat('special-float')

    # representability of the expected fields
    unrepresentable = False
    skip = False
    if exp[0] == 'pk':
        for fmt, v, kind in exp[3]:
            if kind == 'f':
                if not _fits_f32(v):
                    unrepresentable = True
            elif kind == 'xmode':
                r, p = v
                if not (_fits_f32(0.7071 * (r - p)) and _fits_f32(0.7071 * (r + p))):
                    # borderline overflow of the rotated values: do not judge
                    if math.isfinite(r) and math.isfinite(p):
                        skip = True
            elif kind == 'i':
                lim = {'B': 255, 'H': 65535, 'I': 0xFFFFFFFF}[fmt]
                if not (0 <= v <= lim):
                    unrepresentable = True
            elif kind == 'fx':
                if math.isnan(v) or math.isinf(v):
                    unrepresentable = True
                else:
                    ex = Fraction(v) * 1000
                    if _borderline(ex):
                        skip = True
                    elif not (-32769 < ex < 32768):
                        unrepresentable = True
            elif kind == 'quat':
                n = math.sqrt(sum(x * x for x in v))
                if n == 0 and not any(math.isnan(x) for x in v):
                    unrepresentable = True      # the zero quaternion is no orientation at all
                elif not (1e-6 < n < 1e6) or any(math.isnan(x) for x in v):
                    skip = True
    if skip:
        out.feat('excluded-ambiguous')
        return out
    try:
        with warnings.catch_warnings(), contextlib.redirect_stdout(io.StringIO()):
            warnings.simplefilter('ignore')
            _call(cf, cmd, a)
        raised = None
    except Exception as e:  # noqa
        raised = e
    sent = cf.sent
    desc = '%s%r v=%d xmode=%r' % (cmd, tuple(a), version, xmode)
    for (pk_, hdr_, data_) in pre_snap:
        if pk_.header != hdr_ or bytes(pk_.data) != data_:
            out.fail('cmd:earlier-packet-mutated', '%s: a packet handed to the link by an earlier command (%s) changed from %s to %s' % (
                desc, [p['cmd'] for p in case.get('pre', [])], data_.hex(), bytes(pk_.data).hex()))
            break
    if case.get('pre'):
        out.feat('with-earlier-commands')
    if case.get('prev_version') is not None:
        out.feat('renegotiated')
    if exp[0] == 'raise' or unrepresentable:
        out.feat('expect-raise')
        if raised is None:
            out.fail('cmd:%s:no-raise' % cmd, '%s: unrepresentable arguments were sent as %s' % (
                desc, [bytes(p.data).hex() for p in sent]))
        elif sent:
            out.fail('cmd:%s:raise-but-sent' % cmd, '%s raised %r but sent %d packets' % (desc, raised, len(sent)))
        return out
    if raised is not None:
        out.fail('cmd:%s:raises' % cmd, '%s raised %r' % (desc, raised))
        return out
    if exp[0] == 'none':
        if sent:
            out.fail('cmd:%s:unexpected-packet' % cmd, desc)
        return out
    _, port, channel, fields = exp
    if len(sent) != 1:
        out.fail('cmd:%s:packet-count' % cmd, '%s sent %d packets' % (desc, len(sent)))
        return out
    pk = sent[0]
    data = bytes(pk.data)
    if len(data) > 30:
        out.fail('cmd:%s:too-long' % cmd, '%s: %d bytes' % (desc, len(data)))
    hdr = pk.header      # not get_header(): the link drivers transmit the attribute
    if (pk.port, pk.channel) != (port, channel) or ((hdr >> 4) & 0xF, hdr & 3) != (port, channel):
        out.fail('cmd:%s:port-channel' % cmd, '%s on %r/%r (header 0x%02x), expected %d/%d' % (desc, pk.port, pk.channel, hdr, port, channel))
    fmt = '<' + ''.join('ff' if k == 'xmode' else f for f, v, k in fields)
    if len(data) != struct.calcsize(fmt):
        out.fail('cmd:%s:length' % cmd, '%s: %d bytes, layout %s needs %d (%s)' % (desc, len(data), fmt, struct.calcsize(fmt), data.hex()))
        return out
    vals = list(struct.unpack(fmt, data))
    off = 0
    pos = 0
    for idx, (f, v, kind) in enumerate(fields):
        if kind == 'f':
            raw = data[pos:pos + 4]
            if raw != _f32bits(np.float32(v)) and not (math.isnan(v) and math.isnan(vals[off])):
                out.fail('cmd:%s:field%d' % (cmd, idx), '%s: field %d decodes to %r, expected %r' % (desc, idx, vals[off], v))
            off += 1
            pos += 4
        elif kind == 'xmode':
            r, p = v
            want = (math.sqrt(0.5) * (r - p), -(math.sqrt(0.5) * (r + p)))
            for j in range(2):
                g, w = vals[off + j], want[j]
                ok = (math.isnan(g) and math.isnan(w)) or g == w or (math.isfinite(w) and abs(g - w) <= 5e-4 * max(abs(r), abs(p), 1e-30) * 2)
                if not ok:
                    out.fail('cmd:%s:xmode' % cmd, '%s: rotated field %d is %r, expected ~%r' % (desc, j, g, w))
            off += 2
            pos += 8
        elif kind == 'i':
            if vals[off] != v:
                out.fail('cmd:%s:field%d' % (cmd, idx), '%s: field %d decodes to %r, expected %r' % (desc, idx, vals[off], v))
            off += 1
            pos += struct.calcsize(f)
        elif kind == 'fx':
            if abs(Fraction(vals[off]) - Fraction(v) * 1000) >= 1:
                out.fail('cmd:%s:fixed%d' % (cmd, idx), '%s: field %d decodes to %d, expected %.3f' % (desc, idx, vals[off], v * 1000))
            off += 1
            pos += 2
        elif kind == 'quat':
            n = math.sqrt(sum(x * x for x in v))
            qn = [x / n for x in v]
            d = _ref_decompress(vals[off])
            s = 1.0 if sum(x * y for x, y in zip(d, qn)) >= 0 else -1.0
            err = max(abs(s * x - y) for x, y in zip(d, qn))
            if err > 2.0 / 511 / math.sqrt(2) + 1e-12:
                out.fail('cmd:%s:quat' % cmd, '%s: orientation decodes to %r (err %.4f)' % (desc, d, err))
            off += 1
            pos += 4
    return out


def _flatten(a):
    res = []
    for v in a:
        if isinstance(v, (list, tuple)):
            res.extend(_flatten(v))
        else:
            res.append(v)
    return res


def _freeze(a):
    """JSON friendly: floats nan/inf stay python floats (json module round-trips them), None stays None."""
    return a


def _thaw(a):
    return [tuple(v) if isinstance(v, list) else v for v in a]


_fl = st.one_of(
    st.floats(-1000, 1000, allow_nan=False),
    st.floats(allow_nan=True, allow_infinity=True),
    st.floats(width=32, allow_nan=False, allow_infinity=False),
    st.sampled_from([0.0, -0.0, 1.0, -1.0, 1e-45, 1.17549435e-38, F32MAX, -F32MAX, 3.5e38, -3.5e38, 1e39, float('inf'), float('-inf'),
                     float('nan'), 0.1, 45.0, -45.0, 2 * math.pi, -2 * math.pi, 6.3, -6.3]))
_sfl = st.one_of(st.floats(-1000, 1000, allow_nan=False), st.sampled_from([0.0, -0.0, 1.5, -2.5, 30.0, 0.5]))
_u8s = st.one_of(st.integers(0, 255), st.sampled_from([0, 1, 255]))
_b = st.booleans()
_fx = st.one_of(st.floats(-32.7, 32.7, allow_nan=False), st.floats(-40, 40, allow_nan=False),
                st.integers(-32770, 32770).map(lambda k: k / 1000.0),
                st.sampled_from([0.0, 32.767, -32.768, 32.7675, -32.7685, 32.769, -32.77, float('nan'), float('inf')]))
_fx_in = st.one_of(st.floats(-32.7, 32.7, allow_nan=False), st.integers(-32767, 32767).map(lambda k: k / 1000.0))
_quat = st.lists(st.one_of(st.floats(-1, 1, allow_nan=False), st.sampled_from([0.0, 1.0, -1.0, 0.5, -0.5])), min_size=4, max_size=4) \
    .filter(lambda q: sum(v * v for v in q) > 1e-6)
_quat = st.one_of(_quat, _quat, _quat, _quat, st.sampled_from([[0.0, 0.0, 0.0, 0.0], [0, 0, 0, 0], [-0.0, 0.0, -0.0, 0.0]]))
_thrust = st.one_of(st.integers(0, 65535), st.sampled_from([0, 65535, 65536, -1, 100000, 10001, 60000]), st.integers(-70000, 140000),
                    st.sampled_from([-0.5, -0.999, 65535.5, 65535.001, 100.5, 0.25]))
_bs = st.lists(st.one_of(st.integers(0, 15), st.integers(-2, 17)), max_size=6, unique=True)


def _args(cmd):
    f = _fl
    T = st.tuples
    m = {
        'setpoint': T(f, f, f, _thrust),
        'notify_stop': T(st.one_of(st.integers(0, 0xFFFFFFFF), st.sampled_from([0, 1000, 0xFFFFFFFF, 0x100000000, -1]))),
        'stop_setpoint': T(),
        'velocity_world': T(f, f, f, f), 'zdistance': T(f, f, f, f), 'hover': T(f, f, f, f), 'position': T(f, f, f, f),
        'full_state': T(st.lists(_fx, min_size=3, max_size=3), st.lists(_fx_in, min_size=3, max_size=3),
                        st.lists(_fx_in, min_size=3, max_size=3), _quat, _fx_in, _fx, _fx_in),
        'hl_group_mask': T(_u8s),
        'hl_takeoff': T(f, f, _u8s, st.one_of(st.none(), f)), 'hl_land': T(f, f, _u8s, st.one_of(st.none(), f)),
        'hl_stop': T(_u8s),
        'hl_goto': T(f, f, f, f, f, _b, _b, _u8s),
        'hl_spiral': T(f, f, f, f, f, _b, _b, _u8s),
        'hl_start_traj': T(_u8s, f, _b, _b, _u8s),
        'hl_define_traj': T(_u8s, st.one_of(st.integers(0, 0xFFFFFFFF), st.sampled_from([0, 4095, 0xFFFFFFFF, 0x100000000])), _u8s,
                            st.sampled_from([0, 1])),
        'extpos': T(f, f, f), 'loc_extpos': T(f, f, f),
        'extpose': T(f, f, f, f, f, f, f), 'loc_extpose': T(f, f, f, f, f, f, f),
        'emergency_stop': T(), 'emergency_watchdog': T(),
        'lh_persist': T(_bs, _bs),
        'arming': T(_b), 'crash_recovery': T(),
        'lpp_position': T(_u8s, f, f, f), 'lpp_reboot': T(_u8s, _u8s), 'lpp_mode': T(_u8s, _u8s),
        'lpp_raw': T(_u8s, st.sampled_from([0, 1, 27, 28, 28, 29, 29, 30, 40])),
    }
    return m[cmd]


CMDS = ['setpoint', 'notify_stop', 'stop_setpoint', 'velocity_world', 'zdistance', 'hover', 'position', 'full_state', 'hl_group_mask',
        'hl_takeoff', 'hl_land', 'hl_stop', 'hl_goto', 'hl_spiral', 'hl_start_traj', 'hl_define_traj', 'extpos', 'loc_extpos', 'extpose',
        'loc_extpose', 'emergency_stop', 'emergency_watchdog', 'lh_persist', 'arming', 'crash_recovery', 'lpp_position', 'lpp_reboot',
        'lpp_mode', 'lpp_raw']
WEIGHTED = CMDS + ['setpoint', 'velocity_world', 'zdistance', 'hover', 'full_state', 'hl_goto', 'hl_spiral', 'hl_takeoff', 'hl_land'] * 2


def _tolist(t):
    return [list(v) if isinstance(v, (list, tuple)) else v for v in t]


_one = st.sampled_from(WEIGHTED).flatmap(lambda c: st.tuples(st.just(c), _args(c))).map(lambda t: {'cmd': t[0], 'args': _tolist(t[1])})
command_strategy = st.tuples(_one, st.sampled_from(VERSIONS), st.booleans(), st.one_of(st.just([]), st.just([]), st.lists(_one, min_size=1, max_size=2)),
                             st.one_of(st.none(), st.none(), st.sampled_from(VERSIONS))) \
    .map(lambda t: {'cmd': t[0]['cmd'], 'args': t[0]['args'], 'version': t[1], 'xmode': t[2], 'pre': t[3], 'prev_version': t[4]})


# ------------------------------------------------------------------ header bijection
def run_header(case):
    from cflib.crtp.crtpstack import CRTPPacket
    out = Outcome(nontrivial=True)
    port, channel, how = case['port'], case['channel'], case['how']
    out.feat('header-' + how)
    want = (port << 4) | 0x0C | channel
    pk = CRTPPacket()
    if how == 'set_header':
        pk.set_header(port, channel)
    elif how == 'setters-port-first':
        pk.port = port
        pk.channel = channel
    elif how == 'setters-channel-first':
        pk.channel = channel
        pk.port = port
    elif how == 'constructor':
        pk = CRTPPacket(header=(port << 4) | channel)
    elif how == 'constructor-reserved':
        pk = CRTPPacket(header=want)
    raw = pk.header          # what the link drivers transmit
    got = pk.get_header()
    if raw != want:
        out.fail('header:attribute-stale', '%s(%d,%d): pk.header is 0x%02x, expected 0x%02x' % (how, port, channel, raw, want))
    if got != want or pk.header != want or pk.port != port or pk.channel != channel:
        out.fail('header:encode', '%s(%d,%d): header 0x%02x port %r channel %r, expected 0x%02x' % (how, port, channel, got, pk.port, pk.channel, want))
    back = CRTPPacket(header=got)
    if (back.port, back.channel) != (port, channel):
        out.fail('header:decode', 'header 0x%02x parses to %r/%r' % (got, back.port, back.channel))
    return out


def header_cases(tier):
    for how in ('set_header', 'setters-port-first', 'setters-channel-first', 'constructor', 'constructor-reserved'):
        for port in range(16):
            for ch in range(4):
                yield {'port': port, 'channel': ch, 'how': how}


def subchecks(tier):
    return [
        Sub('commands', run_command, strategy=command_strategy, examples={'quick': 6000, 'thorough': 400000}),
        Sub('headers', run_header, cases=header_cases, distinct_by_construction=True),
    ]
