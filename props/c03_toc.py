"""C03: downloaded log and parameter tables equal the device tables."""
import shutil
import tempfile

from hypothesis import strategies as st

from vlib import cfharness
from vlib.dsched import Deadlock, Horizon
from vlib.runner import Outcome, Sub
from vlib.simcf import LOG_TYPES, PARAM_TYPES, Net, SimEnv

PROPERTY = 'C03'
LEVEL = 'exploration'
SHARDS = {'quick': 4, 'thorough': 16}
RULE = ('Hypothesis draws device tables (sizes from {0,1,2,3,...} U {254,255,256,257,300}; every type code of the library tables; group/name '
        'lengths up to the packet limit; RO/extended/persistent bits; CRCs incl. small values whose bytes look like table items), protocol '
        'version on both sides of 4 (and a device without version service), link kind (reliable / needs resending) with per-reply delays '
        'around the 0.2 s retry timer (natural duplicates and stale replies: answers to the library\'s own resends), cache absent or '
        'cold-then-warm, and a thread schedule. A real Crazyflie connects under the deterministic scheduler; inside the `connected` callback '
        'both tables are compared entry by entry with the device spec and the three lookup paths are cross-checked. Non-trivial = table '
        'with > 255 or 0 entries, at least one duplicated/stale reply delivered, or a cache hit.')
ASSUMPTIONS = ['duplicates are only those the protocol can produce (the device answers every request it receives, including resends)',
               'legacy protocol tables are capped at 255 entries; extended/persistent parameters only on protocol >= 4',
               'group.name pairs are unique and use the identifier alphabet']

LOG_CT = {k: v[0] for k, v in LOG_TYPES.items()}
LOG_PY = {k: v[1] for k, v in LOG_TYPES.items()}


def _names(n, glen, nlen, seed):
    """n unique (group, name) pairs with the requested lengths"""
    out = []
    for i in range(n):
        g = ('g%x' % (i // 7 + seed)).ljust(max(1, glen[i % len(glen)]), 'q')[:max(1, glen[i % len(glen)])]
        nm = ('n%x' % i).ljust(max(1, nlen[i % len(nlen)]), 'z')
        out.append((g, nm))
    # make unique
    seen = set()
    res = []
    for g, nm in out:
        while (g, nm) in seen:
            nm += 'x'
        seen.add((g, nm))
        res.append((g, nm))
    return res


def build_spec(case):
    v = case['version']
    maxlen = 24 if v >= 4 else 25
    nlog = min(case['nlog'], 255) if v < 4 else case['nlog']
    npar = min(case['nparam'], 255) if v < 4 else case['nparam']
    log_toc = []
    for i, (g, n) in enumerate(_names(nlog, case['glen'], case['nlen'], 1)):
        if len(g) + len(n) > maxlen:
            n = n[:max(1, maxlen - len(g))]
            g = g[:maxlen - len(n)]
        log_toc.append({'group': g, 'name': n + ('' if (g, n) not in [(e['group'], e['name']) for e in log_toc] else '_'), 'type': [1, 2, 3, 4, 5, 6, 7, 8][(i + case['tshift']) % 8]})
    ptypes = sorted(PARAM_TYPES)
    param_toc = []
    used = set()
    for i, (g, n) in enumerate(_names(npar, case['glen'], case['nlen'], 40)):
        if len(g) + len(n) > maxlen:
            n = n[:max(1, maxlen - len(g))]
            g = g[:maxlen - len(n)]
        while (g, n) in used:
            n = n[:-1] + chr(ord('a') + len(used) % 26) if len(g) + len(n) >= maxlen else n + 'y'
        used.add((g, n))
        t = ptypes[(i + case['tshift']) % len(ptypes)]
        ext = v >= 4 and (i * 7 + case['tshift']) % case.get('extmod', 5) == 0
        param_toc.append({'group': g, 'name': n, 'type': t, 'ro': (i + case['tshift']) % 4 == 1, 'core': (i + case['tshift']) % 3 == 1, 'extended': ext,
                          'persistent': ext and (i + case['tshift']) % 2 == 0, 'value': 1, 'default': 0})
    # de-duplicate log names too
    used = set()
    for e in log_toc:
        while (e['group'], e['name']) in used:
            e['name'] = e['name'][:-1] + chr(ord('a') + len(used) % 26) if len(e['group']) + len(e['name']) >= maxlen else e['name'] + 'y'
        used.add((e['group'], e['name']))
    return {'version': v, 'log_toc': log_toc, 'param_toc': param_toc, 'log_crc': case['log_crc'], 'param_crc': case['param_crc'], 'mems': []}


def _compare(out, kind, toc, spec_toc, label):
    want = {}
    for i, e in enumerate(spec_toc):
        want[(e['group'], e['name'])] = (i, e)
    got = {}
    for g in toc.toc:
        for n in toc.toc[g]:
            got[(g, n)] = toc.toc[g][n]
    if set(got) != set(want):
        missing = sorted(set(want) - set(got))[:3]
        extra = sorted(set(got) - set(want))[:3]
        out.fail('toc:%s:names' % kind, '%s: %d device entries, %d downloaded; missing %r extra %r' % (label, len(want), len(got), missing, extra))
        return
    for key, (i, e) in want.items():
        el = got[key]
        if kind == 'log':
            exp = (i, LOG_CT[e['type']], LOG_PY[e['type']])
            have = (el.ident, el.ctype, el.pytype)
        else:
            exp = (i, PARAM_TYPES[e['type']][0], PARAM_TYPES[e['type']][1], 1 if e.get('ro') else 0, bool(e.get('extended')), bool(e.get('persistent')))
            have = (el.ident, el.ctype, el.pytype, el.access, bool(el.extended), bool(el.persistent))
        if exp != have:
            field = [k for k in range(len(exp)) if exp[k] != have[k]][0]
            out.fail('toc:%s:entry-field%d' % (kind, field), '%s: %s.%s device %r downloaded %r' % (label, key[0], key[1], exp, have))
            return
        cn = '%s.%s' % key
        a = toc.get_element_by_complete_name(cn)
        b = toc.get_element_by_id(i)
        c = toc.get_element(key[0], key[1])
        if not (a is el and b is el and c is el) or toc.get_element_id(cn) != i:
            out.fail('toc:%s:lookup' % kind, '%s: lookups for %s disagree (%r %r %r)' % (label, cn, a, b, c))
            return
    if toc.get_element_by_id(len(want)) is not None or toc.get_element('nosuch', 'entry') is not None or \
            toc.get_element_by_complete_name('nosuch.entry') is not None:
        out.fail('toc:%s:lookup-absent' % kind, '%s: lookup of an absent entry returned something' % label)


def run_toc(case):
    out = Outcome()
    spec = build_spec(case)
    net = Net(needs_resending=case['needs_resending'], delays=case['delays'] if case['needs_resending'] else [d for d in case['delays'] if d < 0.15])
    cache_dir = tempfile.mkdtemp(prefix='verif-c03-') if case['cache'] else None
    label = 'v%d nlog=%d nparam=%d resend=%r delays=%r cache=%r crc=%08x/%08x' % (
        case['version'], len(spec['log_toc']), len(spec['param_toc']), case['needs_resending'], case['delays'][:8], case['cache'], case['log_crc'], case['param_crc'])
    dup = False
    try:
        with SimEnv(spec, net, case.get('schedule'), horizon=400.0) as env:
            s = env.s
            cf, rec = cfharness.make_cf(env, rw_cache=cache_dir)
            snaps = []
            if (case.get('burst') or case.get('latedup')) and case['needs_resending']:
                # selected requests are answered late (0.21 s) and their resend quickly (0.01 s): both answers arrive together
                seen_req = {}
                counter = {'n': 0, 'r': 0}

                def filt(lnk, req, reps):
                    res = []
                    first = req not in seen_req
                    if first:
                        seen_req[req] = counter['n']
                        counter['n'] += 1
                    for r in reps:
                        j = counter['r']
                        counter['r'] += 1
                        if not first:
                            d = 0.01
                        elif seen_req[req] in case['burst']:
                            d = 0.21
                        else:
                            d = net.delays[j % len(net.delays)] if net.delays else None
                        res.append((r, d, None))
                        if first and str(seen_req[req]) in (case.get('latedup') or {}):
                            # a second copy of this answer (to a retransmission that was already on its way) a few exchanges later
                            res.append((r, (d if d is not None else 0.001) + case['latedup'][str(seen_req[req])], None))
                    return res
                env.world.reply_filter = filt

            def on_connected(uri):
                rounds = len([1 for e in rec.names() if e == 'connected'])
                cur = env.world.device.spec
                lbl = '%s round %d' % (label, rounds)
                if cf.log.toc is None:
                    out.fail('toc:log:missing', lbl)
                else:
                    _compare(out, 'log', cf.log.toc, cur['log_toc'], lbl)
                _compare(out, 'param', cf.param.toc, cur['param_toc'], lbl)
                snaps.append(rounds)
            cf.connected.add_callback(on_connected)
            rounds = 2 if (case['cache'] or case.get('second')) else 1
            if case.get('cut') is not None:
                # a first connection that the application ends at the k-th packet on the parameter port (inside the table download, between
                # the download and the extended types, or after): whatever it left in the cache must not spoil the connections that follow
                seen_pk = [0]
                fired = []

                def cutter(pk_):
                    seen_pk[0] += 1
                    if not fired and seen_pk[0] > case['cut']:
                        fired.append(1)
                        cf.close_link()
                cf.add_port_callback(2, cutter)
                cf.open_link('sim://1')
                s.sleep(5.0)
                cf.remove_port_callback(2, cutter)
                if not fired:
                    cf.close_link()
                else:
                    out.feat('first-connection-cut-short')
                s.sleep(3.0)
            from vlib.simcf import SimDevice
            for r in range(rounds):
                if r == 1 and case.get('second'):
                    # "new firmware": the same Crazyflie object reconnects to a device with different tables
                    c2 = dict(case)
                    c2.update(case['second'])
                    # a checksum identifies one table: different tables never share one
                    used_crcs = {case['log_crc'], case['param_crc']}
                    for key in ('log_crc', 'param_crc'):
                        while c2[key] in used_crcs:
                            c2[key] = (c2[key] + 0x01010101) & 0xFFFFFFFF
                        used_crcs.add(c2[key])
                    spec = build_spec(c2)
                    env.world.device = SimDevice(spec)
                    label = label + ' second-tables(nlog=%d nparam=%d)' % (len(spec['log_toc']), len(spec['param_toc']))
                if case.get('notify') and spec['version'] >= 4 and spec['param_toc']:
                    # unsolicited value-updated notifications while the tables are being downloaded
                    def notifier(times=list(case['notify']), dev=env.world.device, nparam=len(spec['param_toc'])):
                        t_prev = 0.0
                        for k, (t_, idx) in enumerate(sorted(times)):
                            s.sleep(max(0.0, t_ - t_prev))
                            t_prev = t_
                            if env.world.links and not env.world.links[-1].closed:
                                i_ = idx % nparam
                                env.world.links[-1].deliver(dev.value_updated_packet(i_, dev.values[i_]), delay=0.0)
                    s.spawn(notifier, 'notifier')
                try:
                    ok = cfharness.connect(env, cf, rec, wait_for='connected', timeout=400.0, step=0.5)
                except (Deadlock, Horizon) as e:
                    out.fail('toc:connect-hang', '%s: %s' % (label, repr(e)[:300]))
                    return out
                if not ok:
                    out.fail('toc:never-connected', '%s: events %r' % (label, rec.names()[-6:]))
                    return out
                s.sleep(1.0)
                cf.close_link()
                s.sleep(3.0)
            link_rx = [x for l in env.world.links for x in l.rx_log]
            seen = set()
            for t, port, ch, data in link_rx:
                if ch == 0 and port in (2, 5):
                    if (port, data) in seen:
                        dup = True
                    seen.add((port, data))
            if s.deaths:
                out.fail('toc:thread-died:' + s.deaths[0][1][:60], s.deaths[0][2][-500:])
            hits = sum(1 for l in env.world.links[1:] for t, port, ch, d, c in l.tx if ch == 0 and port in (2, 5) and d[0] in (0, 2))
            cache_hit = bool(case['cache']) and len(env.world.links) > 1 and not any(
                ch == 0 and port in (2, 5) and d[0] in (0, 2) for t, port, ch, d, c in env.world.links[1].tx)
    finally:
        if cache_dir:
            shutil.rmtree(cache_dir, ignore_errors=True)
    big = len(spec['log_toc']) > 255 or len(spec['param_toc']) > 255
    empty = not spec['log_toc'] or not spec['param_toc']
    out.nontrivial = big or empty or dup or cache_hit
    out.feat('v%d' % case['version'], 'big-table' if big else 'small-table', 'empty-table' if empty else 'nonempty', 'dup-or-stale' if dup else 'no-dup',
             'cache-hit' if cache_hit else 'no-cache-hit', 'resending' if case['needs_resending'] else 'reliable')
    return out


_sched = st.fixed_dictionaries({'prefix': st.lists(st.integers(0, 3), max_size=20), 'seed': st.integers(0, 10 ** 6),
                                'rate': st.sampled_from([0.0, 0.0, 0.05, 0.3])})
_size = st.one_of(st.integers(0, 12), st.sampled_from([0, 1, 2, 3, 20]))
_bigsize = st.sampled_from([254, 255, 256, 257, 300])
_crc = st.one_of(st.integers(0, 0xFFFFFFFF), st.integers(1, 8), st.sampled_from([0, 0x06, 0x07, 0x00000108, 0xFFFFFFFF, 0x6e670007]))


@st.composite
def toc_case(draw, big=False):
    v = draw(st.sampled_from([4, 10, 10, 3]) if big else st.sampled_from([-1, 0, 3, 4, 5, 10, 10]))
    which = draw(st.booleans())
    nlog = draw(_bigsize if big and which else _size)
    nparam = draw(_bigsize if big and not which else _size)
    resend = draw(st.booleans())
    delays = draw(st.lists(st.sampled_from([0.001, 0.001, 0.01, 0.19, 0.2, 0.21, 0.25, 0.41]), min_size=1, max_size=9))
    if big:
        delays = draw(st.lists(st.sampled_from([0.001, 0.001, 0.001, 0.01, 0.21]), min_size=1, max_size=7))
    return {'version': v, 'nlog': nlog, 'nparam': nparam, 'glen': draw(st.lists(st.integers(1, 14), min_size=1, max_size=4)),
            'nlen': draw(st.lists(st.integers(1, 22), min_size=1, max_size=4)), 'tshift': draw(st.integers(0, 9)),
            'log_crc': draw(_crc), 'param_crc': draw(_crc), 'needs_resending': resend, 'delays': delays,
            'cache': draw(st.sampled_from([False, False, True])), 'schedule': draw(_sched), 'extmod': draw(st.sampled_from([5, 2, 1, 3])),
            'burst': draw(st.one_of(st.just([]), st.lists(st.integers(0, 30), max_size=6, unique=True))),
            'latedup': draw(st.one_of(st.just({}), st.just({}), st.dictionaries(st.integers(0, 12).map(str), st.sampled_from([0.0015, 0.0025, 0.0035, 0.0055, 0.0105]), max_size=3))),
            'notify': draw(st.one_of(st.just([]), st.lists(st.tuples(st.sampled_from([0.004, 0.008, 0.012, 0.016, 0.02, 0.03, 0.05, 0.1, 0.25]), st.integers(0, 20)),
                                                           max_size=4).map(lambda l: [list(x) for x in l]))),
            'cut': draw(st.one_of(st.none(), st.none(), st.integers(0, 30))),
            'second': draw(st.one_of(st.none(), st.none(), st.fixed_dictionaries({'nlog': _size, 'nparam': _size, 'tshift': st.integers(0, 9),
                                                                                 'log_crc': _crc, 'param_crc': _crc,
                                                                                 'nlen': st.lists(st.integers(1, 22), min_size=1, max_size=4)})))}


def big_directed_cases(tier):
    """tables just below, at and above 255 entries for every protocol generation that can carry them (enumerated: detection must not
    depend on what the drawn sub-check happens to draw)"""
    for v in (4, 5, 10):
        for (nlog, nparam) in ((256, 3), (3, 257), (255, 2), (2, 255), (300, 0)):
            yield {'version': v, 'nlog': nlog, 'nparam': nparam, 'glen': [3, 7], 'nlen': [4, 9], 'tshift': v % 3, 'log_crc': 0x3000 + v, 'param_crc': 0x4000 + v,
                   'needs_resending': False, 'delays': [0.001], 'cache': False, 'schedule': {'prefix': [], 'seed': v, 'rate': 0.0}, 'extmod': 5,
                   'burst': [], 'latedup': {}, 'notify': [], 'second': None, 'cut': None}
    yield {'version': 3, 'nlog': 255, 'nparam': 255, 'glen': [3, 7], 'nlen': [4, 9], 'tshift': 0, 'log_crc': 0x3003, 'param_crc': 0x4003,
           'needs_resending': False, 'delays': [0.001], 'cache': False, 'schedule': {'prefix': [], 'seed': 3, 'rate': 0.0}, 'extmod': 5,
           'burst': [], 'latedup': {}, 'notify': [], 'second': None, 'cut': None}


def cut_cases(tier):
    """writable cache; the first connection is ended by the application at the k-th parameter-port packet for every k of the handshake, then
    two full connections follow (the second one served from the cache)"""
    for (nparam, extmod, tshift, v) in ((4, 1, 0, 10), (6, 2, 1, 10), (3, 1, 1, 4), (5, 5, 0, 3)):
        for k in range(0, 2 * nparam + 6):
            yield {'version': v, 'nlog': 2, 'nparam': nparam, 'glen': [3], 'nlen': [4], 'tshift': tshift, 'log_crc': 0x1000 + k, 'param_crc': 0x2000 + k,
                   'needs_resending': k % 2 == 1, 'delays': [0.001], 'cache': True, 'schedule': {'prefix': [], 'seed': k, 'rate': 0.0}, 'extmod': extmod,
                   'burst': [], 'latedup': {}, 'notify': [], 'second': None, 'cut': k}


def subchecks(tier):
    return [
        Sub('tables', run_toc, strategy=toc_case(), examples={'quick': 500, 'thorough': 20000}),
        Sub('big-tables', run_toc, strategy=toc_case(big=True), examples={'quick': 12, 'thorough': 400}),
        Sub('cut-then-cached', run_toc, cases=cut_cases, distinct_by_construction=True),
        Sub('big-tables-directed', run_toc, cases=big_directed_cases, distinct_by_construction=True),
    ]
