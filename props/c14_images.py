"""C14: stored configuration images round-trip; validity follows checksum/CRC; write-only images have firmware layout."""
import math
import os
import shutil
import struct
import tempfile
import zlib

from hypothesis import strategies as st

from vlib.memdev import MemSpec, make_memory
from vlib.runner import Outcome, Sub

PROPERTY = 'C14'
LEVEL = 'exploration'
SHARDS = {'quick': 4, 'thorough': 16}
RULE = ('Hypothesis draws image contents; the real Memory + element classes run thread-free over a simulated memory port backed by a byte '
        'array. EEPROM/1-wire: write with one object, parse with a fresh one, then EVERY single-byte corruption position of the image '
        '(drawn xor mask per position; thorough: several masks) is written into the device and `valid` is compared with an independent '
        'checksum/CRC verdict over the device bytes. Lighthouse geometry/calibration: memory layout decoded independently and read back; '
        'YAML files (lighthouse system, persistent params) round-trip in a temp dir. Deck info sections and loco anchor lists are '
        'reference-encoded and parsed. Poly4D and LED-timing images decoded by independent struct tables. Non-trivial = image with >= 2 '
        'elements / version-1 EEPROM / >= 2 base stations or anchors or decks / special floats; every corruption position counts as part '
        'of its image case.')
ASSUMPTIONS = ['memory port device model written from the protocol as used by the library',
               'EEPROM validity reference: token "0xBC", version in {0,1}, 8-bit sum over the version-determined length',
               '1-wire validity reference: 0xEB start byte, CRC32&0xFF over header[0:7] and over the element area (ver,len,elements)',
               'single-byte corruptions that pass the 8-bit CRC but leave malformed element content (unknown id / overrun) are excluded and counted']


def _f32(x):
    return struct.unpack('<f', struct.pack('<f', x))[0]


def _same_f(a, b):
    return (math.isnan(a) and math.isnan(b)) or (a == b and math.copysign(1, a) == math.copysign(1, b))


# ---------------------------------------------------------------- EEPROM
def _eeprom_ref(img):
    """independent verdict + parse of an EEPROM image in device memory. returns (valid, elements or None, completes)"""
    if bytes(img[0:4]) != b'0xBC':
        return False, None, True
    ver = img[4]
    if ver == 0:
        n = 15
    elif ver == 1:
        n = 20
    else:
        return False, None, False      # library never finishes the update for unknown versions; valid stays False
    if len(img) < n + 1:
        return False, None, False
    ok = (sum(img[:n]) % 256) == img[n]
    el = {}
    el['version'], el['radio_channel'], el['radio_speed'], el['pitch_trim'], el['roll_trim'] = struct.unpack('<BBBff', bytes(img[4:15]))
    if ver == 1:
        hi, lo = struct.unpack('<BI', bytes(img[15:20]))
        el['radio_address'] = (hi << 32) | lo
    return ok, el, True


def _eq_elements(a, b):
    if set(a) != set(b):
        return False
    for k in a:
        if isinstance(a[k], float) or isinstance(b[k], float):
            if not _same_f(float(a[k]), float(b[k])):
                return False
        elif a[k] != b[k]:
            return False
    return True


def run_eeprom(case):
    out = Outcome()
    el = dict(case['elements'])
    ver = el['version']
    out.nontrivial = ver == 1
    out.feat('eeprom-v%d' % ver)
    size = 32
    cf, dev, mem, ok = make_memory([MemSpec(0, size, fill=case['fill'])])
    if not ok or len(mem.mems) != 1:
        out.fail('eeprom:enumeration', 'refresh did not finish')
        return out
    m = mem.mems[0]
    m.elements = dict(el)
    wrote = []
    m.write_data(lambda *a: wrote.append(a))
    cf.pump()
    if len(wrote) != 1:
        out.fail('eeprom:write-callback', repr(wrote))
        return out
    img = bytes(dev.mems[0].data)
    want = {k: (_f32(v) if isinstance(v, float) else v) for k, v in el.items()}
    # independent layout check
    rv, rel, _ = _eeprom_ref(img)
    if not rv or not _eq_elements(rel, want):
        out.fail('eeprom:layout', 'written image %s decodes (reference) to valid=%r %r, expected %r' % (img[:22].hex(), rv, rel, want))
        return out
    n = 16 if ver == 0 else 21
    if any(b != case['fill'] for b in img[n:]):
        out.fail('eeprom:writes-beyond-image', img.hex())

    def parse():
        cf2, dev2, mem2, ok2 = make_memory([MemSpec(0, size, data=bytes(dev.mems[0].data))])
        m2 = mem2.mems[0]
        fin = []
        m2.update(lambda x: fin.append(x))
        cf2.pump()
        return m2, fin
    m2, fin = parse()
    if not m2.valid or len(fin) != 1:
        out.fail('eeprom:pristine-rejected', 'valid=%r callbacks=%d image=%s' % (m2.valid, len(fin), img[:n].hex()))
    elif not _eq_elements(m2.elements, want):
        out.fail('eeprom:roundtrip', 'wrote %r parsed %r' % (want, m2.elements))
    # every single-byte corruption
    cf_live, dev_live, mem_live, _ = make_memory([MemSpec(0, size, data=bytes(dev.mems[0].data))])
    m_live = mem_live.mems[0]
    m_live.update(lambda x: None)
    cf_live.pump()
    for pos in range(n):
        # the token bytes additionally get the near-miss values (other letter case, neighbouring character, complement)
        for mask in case['masks'] + ([[0x20], [0x01], [0xFF]] if pos < 4 else []):
            mk = mask[pos % len(mask)] or 1
            orig = dev.mems[0].data[pos]
            dev.mems[0].data[pos] = orig ^ mk
            rvalid, _, completes = _eeprom_ref(dev.mems[0].data)
            try:
                m3, fin3 = parse()
                got = m3.valid
            except Exception as e:  # noqa
                got = 'raised %r' % e
            # the same element object that saw the pristine image re-reads the corrupted one
            try:
                dev_live.mems[0].data[:] = dev.mems[0].data
                fin_live = []
                m_live.update(lambda x: fin_live.append(x))
                cf_live.pump()
                got_live = m_live.valid
                if not completes:
                    m_live._update_finished_cb = None   # the library never completes this update (unknown version)
            except Exception as e:  # noqa
                got_live = 'raised %r' % e
            dev.mems[0].data[pos] = orig
            out.feat('eeprom-corruption')
            if got != rvalid:
                out.fail('eeprom:corruption:%s' % ('accepted' if got is True else 'other'),
                         'byte %d ^ 0x%02x of %s: valid=%r, checksum verdict %r' % (pos, mk, img[:n].hex(), got, rvalid))
            if got_live != rvalid:
                out.fail('eeprom:corruption-reread:%s' % ('accepted' if got_live is True else 'other'),
                         'byte %d ^ 0x%02x of %s re-read by an element that had read the good image: valid=%r, checksum verdict %r' % (
                             pos, mk, img[:n].hex(), got_live, rvalid))
            # and reads the restored image again
            dev_live.mems[0].data[:] = dev.mems[0].data
            m_live.update(lambda x: None)
            cf_live.pump()
            if m_live.valid is not True:
                out.fail('eeprom:restored-rejected', 'after corruption at byte %d the restored image is reported valid=%r' % (pos, m_live.valid))
    return out


_trim = st.one_of(st.floats(width=32, allow_nan=False), st.sampled_from([0.0, -0.0, 1.5, float('inf'), 1e-45, 3.4028234663852886e38]))
_masks = st.lists(st.lists(st.integers(1, 255), min_size=1, max_size=7), min_size=1, max_size=1)


@st.composite
def eeprom_strategy(draw, nmasks=1):
    ver = draw(st.sampled_from([0, 1, 1]))
    el = {'version': ver, 'radio_channel': draw(st.integers(0, 255)), 'radio_speed': draw(st.integers(0, 255)),
          'pitch_trim': draw(_trim), 'roll_trim': draw(_trim)}
    if ver == 1:
        el['radio_address'] = draw(st.one_of(st.integers(0, (1 << 40) - 1), st.sampled_from([0xE7E7E7E7E7, 0, (1 << 40) - 1, 1 << 32, 0xFFFFFFFF])))
    masks = draw(st.lists(st.lists(st.integers(1, 255), min_size=1, max_size=7), min_size=nmasks, max_size=nmasks))
    return {'elements': el, 'fill': draw(st.sampled_from([0, 0xFF, 0x5A])), 'masks': masks}


# ---------------------------------------------------------------- 1-wire
_OW_IDS = {'Board name': 1, 'Board revision': 2, 'Custom': 3}
_OW_NAMES = {v: k for k, v in _OW_IDS.items()}


def _ow_ref(img):
    """(valid, header fields, elements dict, wellformed)"""
    h = bytes(img[0:8])
    start, pins, vid, pid, crc = struct.unpack('<BIBBB', h)
    if start != 0xEB or (zlib.crc32(h[:7]) & 0xff) != crc:
        return False, None, None, True
    elen = img[9]
    area = bytes(img[8:8 + elen + 3])
    if len(area) < elen + 3:
        return False, None, None, True
    if (zlib.crc32(area[:-1]) & 0xff) != area[-1]:
        return False, (pins, vid, pid), None, True
    body = area[2:-1]
    els = {}
    while body:
        if len(body) < 2 or body[0] not in _OW_NAMES or len(body) < 2 + body[1]:
            return True, (pins, vid, pid), None, False
        els[_OW_NAMES[body[0]]] = body[2:2 + body[1]].decode('ISO-8859-1')
        body = body[2 + body[1]:]
    return True, (pins, vid, pid), els, True


def run_ow(case):
    out = Outcome()
    els = case['elements']  # list of [name, value] in insertion order
    out.nontrivial = len(els) >= 2
    out.feat('ow-elements-%d' % len(els))
    size = 112
    cf, dev, mem, ok = make_memory([MemSpec(1, size, fill=0xFF)])
    if not ok or len(mem.mems) != 1:
        out.fail('ow:enumeration', 'refresh of an erased 1-wire memory did not finish')
        return out
    m = mem.mems[0]
    if m.valid:
        out.fail('ow:erased-valid', 'erased memory reported valid')
    m.pins, m.vid, m.pid = case['pins'], case['vid'], case['pid']
    m.elements = {}
    for k, v in els:
        m.elements[k] = v
    wrote = []
    m.write_data(lambda *a: wrote.append(a))
    cf.pump()
    if len(wrote) != 1:
        out.fail('ow:write-callback', repr(wrote))
        return out
    img = bytes(dev.mems[0].data)
    want_els = dict((k, v) for k, v in els)
    rv, hdr, rels, wf = _ow_ref(img)
    if not rv or hdr != (case['pins'], case['vid'], case['pid']) or rels != want_els:
        out.fail('ow:layout', 'written image %s decodes (reference) to %r %r %r' % (img.hex(), rv, hdr, rels))
        return out
    used = 8 + img[9] + 3

    def parse():
        cf2, dev2, mem2, ok2 = make_memory([MemSpec(1, size, data=bytes(dev.mems[0].data))])
        return mem2.mems[0], ok2
    m2, ok2 = parse()
    if not m2.valid or not ok2:
        out.fail('ow:pristine-rejected:len%d-first%d' % (img[9], img[10]),
                 'valid=%r refresh-finished=%r elements=%r image=%s' % (m2.valid, ok2, want_els, img[:used].hex()))
    elif m2.elements != want_els or (m2.pins, m2.vid, m2.pid) != (case['pins'], case['vid'], case['pid']):
        out.fail('ow:roundtrip:len%d-first%d' % (img[9], img[10]), 'wrote %r/%r parsed %r/%r (image %s)' % (
            (case['pins'], case['vid'], case['pid']), want_els, (m2.pins, m2.vid, m2.pid), m2.elements, img[:used].hex()))
    cf_live, dev_live, mem_live, _ = make_memory([MemSpec(1, size, data=bytes(dev.mems[0].data))])
    m_live = mem_live.mems[0]
    for pos in range(used):
        for mask in case['masks']:
            mk = mask[pos % len(mask)] or 1
            orig = dev.mems[0].data[pos]
            dev.mems[0].data[pos] = orig ^ mk
            rvalid, _, rels3, wellformed = _ow_ref(dev.mems[0].data)
            if rvalid and not wellformed:
                out.feat('ow-excluded-malformed-crc-pass')
                dev.mems[0].data[pos] = orig
                continue
            try:
                m3, _ = parse()
                got = m3.valid
            except Exception as e:  # noqa
                got = 'raised %r' % e
            cur = bytes(dev.mems[0].data[:used])
            try:
                dev_live.mems[0].data[:] = dev.mems[0].data
                m_live._update_finished_cb = None
                m_live.update(lambda x: None)
                cf_live.pump()
                got_live = m_live.valid
            except Exception as e:  # noqa
                got_live = 'raised %r' % e
            dev.mems[0].data[pos] = orig
            out.feat('ow-corruption')
            if got_live != rvalid:
                out.fail('ow:corruption-reread:%s' % ('accepted' if got_live is True else 'rejected' if got_live is False else 'other'),
                         'byte %d ^ 0x%02x -> %s re-read by an element that had read the good image: valid=%r, CRC verdict %r' % (
                             pos, mk, cur.hex(), got_live, rvalid))
            if got != rvalid:
                out.fail('ow:corruption:%s' % ('accepted' if got is True else 'rejected' if got is False else 'other'),
                         'byte %d ^ 0x%02x -> %s: valid=%r, CRC verdict %r' % (pos, mk, cur.hex(), got, rvalid))
            elif got is True and rels3 is not None and m3.elements != rels3:
                out.fail('ow:corruption:content', 'byte %d ^ 0x%02x: parsed %r, image holds %r' % (pos, mk, m3.elements, rels3))
    return out


_latin = st.text(alphabet=st.characters(min_codepoint=1, max_codepoint=255), max_size=30)
_owname = st.one_of(_latin, st.sampled_from(['bcLedRing', 'bcMultiranger', 'bcAI', 'D', 'D1x', 'abc', 'Rev.F', '']),
                    st.integers(0, 97).map(lambda n: 'x' * n))


@st.composite
def ow_strategy(draw, nmasks=1):
    kinds = draw(st.permutations(['Board name', 'Board revision', 'Custom']))
    k = draw(st.integers(0, 3))
    els = []
    budget = 101
    for name in kinds[:k]:
        v = draw(_owname)
        v = v[:max(0, budget - 2)]
        if budget < 2:
            break
        budget -= 2 + len(v.encode('ISO-8859-1'))
        els.append([name, v])
    masks = draw(st.lists(st.lists(st.integers(1, 255), min_size=1, max_size=7), min_size=nmasks, max_size=nmasks))
    return {'pins': draw(st.one_of(st.integers(0, 0xFFFFFFFF), st.sampled_from([0, 0xC, 0xFFFFFFFF]))),
            'vid': draw(st.integers(0, 255)), 'pid': draw(st.integers(0, 255)), 'elements': els, 'masks': masks}


def ow_length_cases(tier):
    """single-element images of every length: reaches the header/first-element shortcut boundaries"""
    for name in ('Board name', 'Board revision', 'Custom'):
        for n in range(0, 100):
            yield {'pins': 0xC, 'vid': 0xBC, 'pid': 1, 'elements': [[name, 'r' * n]], 'masks': [[0x01]] if n % 10 == 3 else []}


# ---------------------------------------------------------------- lighthouse memory + yaml
def _vec3(draw, el):
    return [draw(el), draw(el), draw(el)]


_lf = st.one_of(st.floats(width=32, allow_nan=False, allow_infinity=False), st.floats(-10, 10, width=32),
                st.sampled_from([0.0, -0.0, 1.0, float('inf'), float('-inf'), float('nan'), 1e-45, -1e-45, 3.4028234663852886e38]))


@st.composite
def lh_strategy(draw):
    n_geo = draw(st.integers(0, 4))
    geo_ids = draw(st.lists(st.integers(0, 15), min_size=n_geo, max_size=n_geo, unique=True))
    geos = {}
    for i in geo_ids:
        geos[str(i)] = {'origin': _vec3(draw, _lf), 'rot': [_vec3(draw, _lf) for _ in range(3)], 'valid': draw(st.booleans())}
    n_cal = draw(st.integers(0, 4))
    cal_ids = draw(st.lists(st.integers(0, 15), min_size=n_cal, max_size=n_cal, unique=True))
    calibs = {}
    for i in cal_ids:
        calibs[str(i)] = {'sweeps': [[draw(_lf) for _ in range(7)] for _ in range(2)],
                          'uid': draw(st.one_of(st.integers(0, 0xFFFFFFFF), st.sampled_from([0, 0xFFFFFFFF, 0x12345678]))),
                          'valid': draw(st.booleans())}
    return {'geos': geos, 'calibs': calibs, 'system_type': draw(st.sampled_from([1, 2])), 'fill': draw(st.sampled_from([0, 0xFF]))}


_SWEEP_FIELDS = ['phase', 'tilt', 'curve', 'gibmag', 'gibphase', 'ogeemag', 'ogeephase']


def _mk_geo(g):
    from cflib.crazyflie.mem import LighthouseBsGeometry
    o = LighthouseBsGeometry()
    o.origin = list(g['origin'])
    o.rotation_matrix = [list(r) for r in g['rot']]
    o.valid = g['valid']
    return o


def _mk_calib(c):
    from cflib.crazyflie.mem import LighthouseBsCalibration
    o = LighthouseBsCalibration()
    for s, vals in zip(o.sweeps, c['sweeps']):
        for f, v in zip(_SWEEP_FIELDS, vals):
            setattr(s, f, v)
    o.uid = c['uid']
    o.valid = c['valid']
    return o


def _geo_eq(o, g, f32=True):
    conv = _f32 if f32 else (lambda x: x)
    flat_o = list(o.origin) + [v for r in o.rotation_matrix for v in r]
    flat_g = list(g['origin']) + [v for r in g['rot'] for v in r]
    return len(flat_o) == 12 and all(_same_f(float(a), conv(b)) for a, b in zip(flat_o, flat_g))


def _calib_eq(o, c, f32=True):
    conv = _f32 if f32 else (lambda x: x)
    for s, vals in zip(o.sweeps, c['sweeps']):
        for f, v in zip(_SWEEP_FIELDS, vals):
            if not _same_f(float(getattr(s, f)), conv(v)):
                return False
    return o.uid == c['uid']


def run_lh(case):
    from cflib.crazyflie.mem import LighthouseMemHelper
    from cflib.localization.lighthouse_config_manager import LighthouseConfigFileManager
    out = Outcome()
    geos, calibs = case['geos'], case['calibs']
    special = any(math.isnan(v) or math.isinf(v) for g in geos.values() for v in g['origin'] + sum(g['rot'], [])) or \
        any(math.isnan(v) or math.isinf(v) for c in calibs.values() for s in c['sweeps'] for v in s)
    out.nontrivial = len(geos) + len(calibs) >= 2 or special
    out.feat('lh-geos-%d' % min(len(geos), 3), 'lh-calibs-%d' % min(len(calibs), 3))
    if special:
        out.feat('lh-special-floats')
    cf, dev, mem, ok = make_memory([MemSpec(0x14, 0x2000, fill=case['fill'])])
    lhm = mem.mems[0]

    class _Cf:
        pass
    c2 = _Cf()
    c2.mem = mem
    helper = LighthouseMemHelper(c2)
    res = []
    helper.write_geos({int(k): _mk_geo(g) for k, g in geos.items()}, lambda ok_: res.append(('geo', ok_)))
    cf.pump()
    helper.write_calibs({int(k): _mk_calib(c) for k, c in calibs.items()}, lambda ok_: res.append(('calib', ok_)))
    cf.pump()
    if res != [('geo', True), ('calib', True)]:
        out.fail('lh:write-callbacks', repr(res))
        return out
    img = dev.mems[0].data
    fill = case['fill']
    touched = set()
    for k, g in geos.items():
        a = int(k) * 0x100
        touched.update(range(a, a + 49))
        vals = struct.unpack('<12f?', bytes(img[a:a + 49]))
        flat = list(g['origin']) + [v for r in g['rot'] for v in r]
        if not all(_same_f(x, _f32(y)) for x, y in zip(vals[:12], flat)) or vals[12] != g['valid']:
            out.fail('lh:geo-layout', 'bs %s: memory holds %r, wrote %r valid=%r' % (k, vals, flat, g['valid']))
    for k, c in calibs.items():
        a = 0x1000 + int(k) * 0x100
        touched.update(range(a, a + 61))
        vals = struct.unpack('<14fI?', bytes(img[a:a + 61]))
        flat = c['sweeps'][0] + c['sweeps'][1]
        if not all(_same_f(x, _f32(y)) for x, y in zip(vals[:14], flat)) or vals[14] != c['uid'] or vals[15] != c['valid']:
            out.fail('lh:calib-layout', 'bs %s: memory holds %r, wrote %r' % (k, vals, c))
    if any(img[i] != fill for i in range(len(img)) if i not in touched):
        out.fail('lh:writes-elsewhere', 'bytes outside the written objects changed')
    # read back through the helper
    got = {}
    helper.read_all_geos(lambda d: got.__setitem__('geos', d))
    cf.pump()
    helper.read_all_calibs(lambda d: got.__setitem__('calibs', d))
    cf.pump()
    if set(got) != {'geos', 'calibs'} or set(got['geos']) != set(range(16)) or set(got['calibs']) != set(range(16)):
        out.fail('lh:read-all', repr({k: sorted(v) for k, v in got.items()}))
        return out
    for k, g in geos.items():
        o = got['geos'][int(k)]
        if not _geo_eq(o, g) or o.valid != g['valid']:
            out.fail('lh:geo-roundtrip', 'bs %s wrote %r read origin=%r rot=%r valid=%r' % (k, g, o.origin, o.rotation_matrix, o.valid))
    for k, c in calibs.items():
        o = got['calibs'][int(k)]
        if not _calib_eq(o, c) or o.valid != c['valid']:
            out.fail('lh:calib-roundtrip', 'bs %s wrote %r' % (k, c))
    # YAML file round trip of what was read from memory (python floats holding float32 values)
    d = tempfile.mkdtemp(prefix='verif-c14-')
    try:
        fn = os.path.join(d, 'sys.yaml')
        wg = {int(k): got['geos'][int(k)] for k in geos}
        wc = {int(k): got['calibs'][int(k)] for k in calibs}
        LighthouseConfigFileManager.write(fn, geos=wg, calibs=wc, system_type=case['system_type'])
        rg, rc, rs = LighthouseConfigFileManager.read(fn)
        vg = {int(k) for k, g in geos.items() if g['valid']}
        vc = {int(k) for k, c in calibs.items() if c['valid']}
        if set(rg) != vg or set(rc) != vc or rs != case['system_type']:
            out.fail('lh:yaml-ids', 'wrote valid geos %r calibs %r type %r; read %r %r %r' % (sorted(vg), sorted(vc), case['system_type'],
                                                                                             sorted(rg), sorted(rc), rs))
        else:
            for i in vg:
                if not _geo_eq(rg[i], geos[str(i)]) or rg[i].valid is not True:
                    out.fail('lh:yaml-geo', 'bs %d: %r vs %r' % (i, (rg[i].origin, rg[i].rotation_matrix), geos[str(i)]))
            for i in vc:
                if not _calib_eq(rc[i], calibs[str(i)]) or rc[i].valid is not True:
                    out.fail('lh:yaml-calib', 'bs %d' % i)
    finally:
        shutil.rmtree(d, ignore_errors=True)
    return out


# ---------------------------------------------------------------- param yaml
_pname = st.text(alphabet='abcdefghijklmnopqrstuvwxyzABCDEFXYZ0123456789_', min_size=1, max_size=12)
_pval = st.one_of(st.integers(-2 ** 63, 2 ** 64 - 1), st.floats(allow_nan=False), st.sampled_from([0, 1, -1, 255, 0.0, -0.0, 1e-45, float('inf')]))


@st.composite
def paramfile_strategy(draw):
    n = draw(st.integers(0, 6))
    params = {}
    for _ in range(n):
        name = draw(_pname) + '.' + draw(_pname)
        stored = draw(st.booleans())
        params[name] = [stored, draw(_pval), draw(_pval) if stored else None]
    return {'params': params}


def run_paramfile(case):
    from cflib.crazyflie.param import PersistentParamState
    from cflib.localization.param_io import ParamFileManager
    out = Outcome()
    params = {k: PersistentParamState(*v) for k, v in case['params'].items()}
    out.nontrivial = len(params) >= 2
    out.feat('paramfile-%d' % min(len(params), 3))
    d = tempfile.mkdtemp(prefix='verif-c14-')
    try:
        fn = os.path.join(d, 'p.yaml')
        ParamFileManager.write(fn, params)
        back = ParamFileManager.read(fn)
    finally:
        shutil.rmtree(d, ignore_errors=True)
    ok = set(back) == set(params)
    if ok:
        for k, p in params.items():
            b = back[k]
            for x, y in zip(tuple(p), tuple(b)):
                if type(x) is not type(y) or not ((isinstance(x, float) and _same_f(x, y)) or x == y):
                    ok = False
    if not ok:
        out.fail('paramfile:roundtrip', 'wrote %r read %r' % (params, back))
    return out


# ---------------------------------------------------------------- deck info + loco
@st.composite
def deck_strategy(draw):
    decks = []
    for i in range(8):
        bf1 = draw(st.one_of(st.integers(0, 127), st.sampled_from([0, 1, 3, 0x0F, 0x1F, 0x7F, 0x7E])))
        bf2 = draw(st.integers(0, 3))
        name = draw(st.text(alphabet='abcdefghijklmnopqrstuvwxyzABCDEF0123456789-_', max_size=18))
        decks.append({'bf1': bf1, 'bf2': bf2, 'hash': draw(st.integers(0, 0xFFFFFFFF)), 'length': draw(st.integers(0, 0xFFFFFFFF)),
                      'base': draw(st.sampled_from([0x10000000, 0x20000000, 0x30000000, 0x40000000, 0, 0xF0000000])), 'name': name})
    return {'version': draw(st.sampled_from([3, 3, 3, 3, 2, 4, 0, 255])), 'decks': decks}


def run_deck(case):
    out = Outcome()
    img = bytearray([case['version']])
    for dk in case['decks']:
        rec = struct.pack('<BBLLL18s', dk['bf1'], dk['bf2'], dk['hash'], dk['length'], dk['base'], dk['name'].encode())
        img += rec.ljust(0x20, b'\0')
    cf, dev, mem, ok = make_memory([MemSpec(0x19, 0x2000, data=bytes(img))])
    mgr = mem.mems[0]
    res = []
    mgr.query_decks(lambda d: res.append(('ok', d)), lambda e: res.append(('fail', e)))
    cf.pump()
    valid = [i for i, dk in enumerate(case['decks']) if dk['bf1'] & 1]
    out.nontrivial = len(valid) >= 2 and case['version'] == 3
    out.feat('deck-version-%s' % ('ok' if case['version'] == 3 else 'bad'), 'deck-valid-%d' % min(len(valid), 3))
    if case['version'] != 3:
        if len(res) != 1 or res[0][0] != 'fail':
            out.fail('deck:unsupported-version-accepted', repr(res)[:200])
        return out
    if len(res) != 1 or res[0][0] != 'ok':
        out.fail('deck:query', repr(res)[:200])
        return out
    d = res[0][1]
    if sorted(d) != valid:
        out.fail('deck:valid-set', 'valid decks %r, parsed %r' % (valid, sorted(d)))
        return out
    for i in valid:
        dk, o = case['decks'][i], d[i]
        b1, b2 = dk['bf1'], dk['bf2']
        want = (True, bool(b1 & 2), bool(b1 & 4), bool(b1 & 8), bool(b1 & 16), bool(b1 & 32), bool(b1 & 64), bool(b2 & 1), bool(b2 & 2),
                dk['hash'], dk['length'], dk['name'])
        got = (o.is_valid, o.is_started, o.supports_read, o.supports_write, o.supports_fw_upgrade, o.is_fw_upgrade_required,
               o.is_bootloader_active, o.supports_reset_to_fw, o.supports_reset_to_bootloader, o.required_hash, o.required_length, o.name)
        if got != want:
            out.fail('deck:fields', 'deck %d encoded %r parsed %r' % (i, want, got))
        if not o.contains(dk['base']) or o.contains(dk['base'] - 1) or o.contains(dk['base'] + 0x10000000):
            out.fail('deck:base-address', 'deck %d base 0x%x' % (i, dk['base']))
    return out


@st.composite
def loco_strategy(draw):
    kind = draw(st.sampled_from(['loco', 'loco2']))
    n = draw(st.integers(0, 8 if kind == 'loco' else 16))
    ids = list(range(n)) if kind == 'loco' else draw(st.lists(st.integers(0, 255), min_size=n, max_size=n, unique=True))
    anchors = [{'id': i, 'pos': [draw(_lf), draw(_lf), draw(_lf)], 'valid': draw(st.booleans())} for i in ids]
    active = draw(st.lists(st.sampled_from(ids), unique=True, max_size=len(ids))) if ids else []
    return {'kind': kind, 'anchors': anchors, 'active': active}


def run_loco(case):
    out = Outcome()
    anchors = case['anchors']
    out.nontrivial = len(anchors) >= 2
    out.feat(case['kind'] + '-%d' % min(len(anchors), 3))
    if case['kind'] == 'loco':
        img = bytearray(0x1000 + 0x100 * max(1, len(anchors)))
        img[0] = len(anchors)
        for k, a in enumerate(anchors):
            img[0x1000 + 0x100 * k: 0x1000 + 0x100 * k + 13] = struct.pack('<fff?', *(a['pos'] + [a['valid']]))
        cf, dev, mem, ok = make_memory([MemSpec(0x11, len(img), data=bytes(img))])
        m = mem.mems[0]
        fin = []
        m.update(lambda x: fin.append(x))
        cf.pump()
        if len(fin) != 1 or not m.valid or m.nr_of_anchors != len(anchors) or len(m.anchor_data) != len(anchors):
            out.fail('loco:update', 'callbacks %d valid %r n %r' % (len(fin), m.valid, m.nr_of_anchors))
            return out
        for a, o in zip(anchors, m.anchor_data):
            if not all(_same_f(x, _f32(y)) for x, y in zip(o.position, a['pos'])) or o.is_valid != a['valid']:
                out.fail('loco:anchor', 'encoded %r parsed %r %r' % (a, o.position, o.is_valid))
    else:
        img = bytearray(0x2000 + 0x100 * 256)
        img[0] = len(anchors)
        for k, a in enumerate(anchors):
            img[1 + k] = a['id']
            img[0x2000 + 0x100 * a['id']: 0x2000 + 0x100 * a['id'] + 13] = struct.pack('<fff?', *(a['pos'] + [a['valid']]))
        img[0x1000] = len(case['active'])
        for k, i in enumerate(case['active']):
            img[0x1001 + k] = i
        cf, dev, mem, ok = make_memory([MemSpec(0x13, len(img), data=bytes(img))])
        m = mem.mems[0]
        fin = []
        m.update_id_list(lambda x: fin.append('ids'))
        cf.pump()
        m.update_active_id_list(lambda x: fin.append('active'))
        cf.pump()
        m.update_data(lambda x: fin.append('data'))
        cf.pump()
        want_fin = ['ids', 'active'] + (['data'] if anchors else [])
        if fin != want_fin or list(m.anchor_ids) != [a['id'] for a in anchors] or list(m.active_anchor_ids) != list(case['active']):
            out.fail('loco2:lists', 'callbacks %r ids %r active %r; encoded ids %r active %r' % (
                fin, m.anchor_ids, m.active_anchor_ids, [a['id'] for a in anchors], case['active']))
            return out
        if anchors and (not m.data_valid or set(m.anchor_data) != set(a['id'] for a in anchors)):
            out.fail('loco2:data', 'data_valid %r keys %r' % (m.data_valid, sorted(m.anchor_data)))
            return out
        for a in anchors:
            o = m.anchor_data[a['id']]
            if not all(_same_f(x, _f32(y)) for x, y in zip(o.position, a['pos'])) or o.is_valid != a['valid']:
                out.fail('loco2:anchor', 'encoded %r parsed %r %r' % (a, o.position, o.is_valid))
    return out


# ---------------------------------------------------------------- write-only images
_f32v = st.one_of(st.floats(width=32, allow_nan=False), st.sampled_from([0.0, -0.0, 1.0, float('inf'), 1e-45]))


@st.composite
def writeonly_strategy(draw):
    kind = draw(st.sampled_from(['poly4d', 'ledtimings', 'compressed']))
    if kind == 'compressed':
        coord = st.one_of(st.floats(-30, 30, allow_nan=False), st.sampled_from([0.0, 1.0, -1.5, 32.0, -32.0]))
        yaw = st.floats(-3.1, 3.1, allow_nan=False)
        nel = st.sampled_from([0, 1, 3, 7])
        segs = [{'duration': draw(st.floats(0.001, 60, allow_nan=False)),
                 'elements': [draw(st.lists(coord, min_size=k, max_size=k)) for k in (draw(nel), draw(nel), draw(nel))] + [draw(st.lists(yaw, min_size=k2, max_size=k2)) for k2 in (draw(nel),)]}
                for _ in range(draw(st.integers(0, 4)))]
        return {'kind': kind, 'startpt': [draw(coord), draw(coord), draw(coord), draw(yaw)], 'segments': segs, 'start': draw(st.sampled_from([0, 0, 50, 1000]))}
    if kind == 'poly4d':
        n = draw(st.integers(1, 4))
        pieces = [{'duration': draw(_f32v), 'polys': [[draw(_f32v) for _ in range(8)] for _ in range(4)]} for _ in range(n)]
        return {'kind': kind, 'pieces': pieces, 'start': draw(st.sampled_from([0, 0, 132, 1000]))}
    n = draw(st.integers(0, 8))
    lvl = st.one_of(st.integers(0, 255), st.sampled_from([0, 0, 0, 1, 2, 3, 4, 251, 252, 254, 255]))     # dark levels round to black in RGB565
    tm = st.one_of(st.integers(0, 255), st.sampled_from([0, 0, 1, 255]))
    timings = [{'time': draw(tm), 'rgb': {'r': draw(lvl), 'g': draw(lvl), 'b': draw(lvl)},
                'leds': draw(st.integers(0, 15)), 'fade': draw(st.booleans()), 'rotate': draw(st.integers(0, 7))} for _ in range(n)]
    for t in timings:
        if draw(st.sampled_from([False, False, False, True])):
            # a step that only switches LEDs / fading / rotation: no duration, colour black
            t.update(time=0, rgb={'r': draw(st.integers(0, 4)), 'g': draw(st.integers(0, 2)), 'b': draw(st.integers(0, 4))})
    return {'kind': kind, 'timings': timings}


def run_writeonly(case):
    from cflib.crazyflie.mem import Poly4D
    out = Outcome()
    if case['kind'] == 'poly4d':
        pieces = case['pieces']
        out.nontrivial = len(pieces) >= 2
        out.feat('poly4d-%d' % len(pieces))
        cf, dev, mem, ok = make_memory([MemSpec(0x12, 4096, fill=0xAA)])
        m = mem.mems[0]
        m.trajectory = [Poly4D(p['duration'], *[Poly4D.Poly(list(v)) for v in p['polys']]) for p in pieces]
        done = []
        n = m.write_data(lambda *a: done.append(a), start_addr=case['start'])
        cf.pump()
        if len(done) != 1 or n != 132 * len(pieces):
            out.fail('poly4d:write', 'callbacks %d returned length %r' % (len(done), n))
            return out
        img = dev.mems[0].data
        for k, p in enumerate(pieces):
            a = case['start'] + 132 * k
            vals = struct.unpack('<33f', bytes(img[a:a + 132]))
            flat = [v for poly in p['polys'] for v in poly] + [p['duration']]
            if not all(_same_f(x, _f32(y)) for x, y in zip(vals, flat)):
                out.fail('poly4d:layout', 'piece %d: memory %r wrote %r' % (k, vals, flat))
        if any(b != 0xAA for b in img[:case['start']]) or any(b != 0xAA for b in img[case['start'] + 132 * len(pieces):]):
            out.fail('poly4d:writes-elsewhere', '')
        # the same trajectory objects written once more into a second slot: the same image there
        second = case['start'] + 132 * len(pieces) + 4
        first_img = bytes(img[case['start']:case['start'] + 132 * len(pieces)])
        done2 = []
        m.write_data(lambda *a: done2.append(a), start_addr=second)
        cf.pump()
        if len(done2) != 1 or bytes(dev.mems[0].data[second:second + 132 * len(pieces)]) != first_img:
            out.fail('poly4d:second-write-differs', '%d pieces written again at %d: callbacks %d' % (len(pieces), second, len(done2)))
    elif case['kind'] == 'compressed':
        from cflib.crazyflie.mem.trajectory_memory import CompressedSegment, CompressedStart

        def build():
            st0 = case['startpt']
            return [CompressedStart(st0[0], st0[1], st0[2], st0[3])] + [CompressedSegment(sg['duration'], *sg['elements']) for sg in case['segments']]
        out.nontrivial = len(case['segments']) >= 1
        out.feat('compressed-%d' % min(len(case['segments']), 3))
        cf, dev, mem, ok = make_memory([MemSpec(0x12, 4096, fill=0xAA)])
        m = mem.mems[0]
        # reference image: every element packed on its own from a fresh object (the per-element layout is C13's business)
        ref = b''.join(bytes(e.pack()) for e in build())
        m.trajectory = build()
        slots = [case['start'], case['start'] + len(ref) + 6, case['start'] + 2 * len(ref) + 20]
        for si, addr in enumerate(slots):
            done = []
            n = m.write_data(lambda *a: done.append(a), start_addr=addr)
            cf.pump()
            got = bytes(dev.mems[0].data[addr:addr + len(ref)])
            if len(done) != 1 or n != len(ref) or got != ref:
                out.fail('compressed:write-%d-differs' % min(si, 1), 'start %r segments %r: write number %d of the same trajectory objects at %d returned %r, memory holds %s, '
                         'elements encode to %s' % (case['startpt'], case['segments'], si + 1, addr, n, got.hex(), ref.hex()))
                break
        img = dev.mems[0].data
        used = [(a, a + len(ref)) for a in slots]
        if any(b != 0xAA for i_, b in enumerate(img) if not any(lo <= i_ < hi for lo, hi in used)):
            out.fail('compressed:writes-elsewhere', '')
    else:
        timings = case['timings']
        out.nontrivial = len(timings) >= 2
        out.feat('ledtimings-%d' % min(len(timings), 3))
        cf, dev, mem, ok = make_memory([MemSpec(0x17, 256, fill=0xAA)])
        m = mem.mems[0]
        for t in timings:
            m.add(t['time'], t['rgb'], leds=t['leds'], fade=t['fade'], rotate=t['rotate'])
        done = []
        m.write_data(lambda *a: done.append(a))
        cf.pump()
        img = bytes(dev.mems[0].data)
        # reference decode: 4-byte records until an all-zero terminator
        recs = []
        pos = 0
        while img[pos:pos + 4] != b'\0\0\0\0':
            recs.append(img[pos:pos + 4])
            pos += 4
            if pos > 250:
                out.fail('ledtimings:no-terminator', img.hex())
                return out
        live = [t for t in timings if t['time'] or t['leds'] or t['fade'] or t['rotate'] or
                ((t['rgb']['r'] * 249 + 1014) >> 11) or ((t['rgb']['g'] * 253 + 505) >> 10) or ((t['rgb']['b'] * 249 + 1014) >> 11)]
        if len(done) != 1 or len(recs) != len(live):
            out.fail('ledtimings:records', '%d records for %d non-empty timings' % (len(recs), len(live)))
            return out
        for r, t in zip(recs, live):
            w = (r[1] << 8) | r[2]
            extra = r[3]
            if r[0] != t['time'] or (extra & 0xF) != t['leds'] or bool(extra & 0x10) != t['fade'] or (extra >> 5) != t['rotate']:
                out.fail('ledtimings:fields', 'record %s for %r' % (r.hex(), t))
            # colour fields: 5/6/5 most-significant bits (within one quantisation step of the 8-bit level)
            for (val, bits, lvl) in ((w >> 11, 5, t['rgb']['r']), ((w >> 5) & 0x3f, 6, t['rgb']['g']), (w & 0x1f, 5, t['rgb']['b'])):
                if abs(val - lvl * ((1 << bits) - 1) / 255.0) > 1.0:
                    out.fail('ledtimings:colour', 'level %d -> %d (%d bits)' % (lvl, val, bits))
    return out


def subchecks(tier):
    nm = 1 if tier == 'quick' else 3
    return [
        Sub('eeprom', run_eeprom, strategy=eeprom_strategy(nm), examples={'quick': 120, 'thorough': 6000}),
        Sub('onewire', run_ow, strategy=ow_strategy(nm), examples={'quick': 60, 'thorough': 3000}),
        Sub('onewire-lengths', run_ow, cases=ow_length_cases, distinct_by_construction=True),
        Sub('lighthouse', run_lh, strategy=lh_strategy(), examples={'quick': 80, 'thorough': 4000}),
        Sub('paramfile', run_paramfile, strategy=paramfile_strategy(), examples={'quick': 150, 'thorough': 6000}),
        Sub('deckinfo', run_deck, strategy=deck_strategy(), examples={'quick': 200, 'thorough': 10000}),
        Sub('loco', run_loco, strategy=loco_strategy(), examples={'quick': 100, 'thorough': 4000}),
        Sub('writeonly', run_writeonly, strategy=writeonly_strategy(), examples={'quick': 400, 'thorough': 12000}),
    ]
