"""C04: parameter writes/reads typed correctly, serialised in issue order, replies never cross-attributed."""
import math
import struct

from hypothesis import strategies as st

from vlib import cfharness
from vlib.dsched import Deadlock, Horizon
from vlib.runner import Outcome, Sub
from vlib.simcf import PARAM_TYPES, Net, SimEnv

PROPERTY = 'C04'
LEVEL = 'exploration'
SHARDS = {'quick': 4, 'thorough': 16}
RULE = ('A real Crazyflie is fully connected (deterministic scheduler, virtual time, reliable link with drawn reply delays) to a simulated '
        'device whose parameter table covers the ten non-FP16 types (RW, RO, persistent). 1-3 user threads run generated scripts over '
        '{set_value, request_param_update, get_value, get_default_value, persistent_store/clear/get_state}; values come from per-type '
        'boundary sets (min, max, +-1 beyond, 0, -1, float extremes, integer strings) and random; the device emits unsolicited '
        'value-updated notifications at drawn instants, preferably for parameters with a request outstanding. Oracles: device transcript '
        '(index width, bytes decode to the requested value), refusal without transmission for RO/unknown/out-of-range, wire order == '
        'queue-put order with each request sent only after the previous reply was dispatched, per-reply callback/cached-value equality, '
        'and exactly-once correctly-typed delivery of every misc reply to its own request. Non-trivial = >= 2 threads issuing, >= 3 misc '
        'requests outstanding at once, or a boundary/out-of-range value. Listeners: one-shot ones that remove themselves (called exactly once), '
        'permanent ones that compare get_value() with the value they are told. Sub "boundaries": every parameter of both table layouts and '
        'both protocol generations set to min / max / one below / one above / near max / 0 / -1 / far outside / a string, then read back.')
ASSUMPTIONS = ['FP16 parameters are excluded (the statement lists the ten types)',
               'default values whose first little-endian byte equals ENOENT (2) are excluded: value and error replies are byte-identical on the wire',
               'integer parameters get integral inputs (ints or integer strings)',
               'each thread issues misc/write requests only for "its" parameters so that request/reply attribution is unambiguous']

ENOENT = 2
RANGES = {0x08: (0, 255), 0x09: (0, 65535), 0x0A: (0, 2 ** 32 - 1), 0x0B: (0, 2 ** 64 - 1), 0x00: (-128, 127), 0x01: (-32768, 32767),
          0x02: (-2 ** 31, 2 ** 31 - 1), 0x03: (-2 ** 63, 2 ** 63 - 1)}
F32MAX = 3.4028234663852886e38


def make_spec(version, seed):
    types = sorted(PARAM_TYPES)
    toc = []
    for i in range(16):
        t = types[(i + seed) % len(types)]
        isf = t in (6, 7)
        default = (i * 3 + 5) if not isf else i * 1.5 + 0.25
        if not isf and (default & 0xff) == ENOENT:
            default += 1
        ext = version >= 4 and i % 2 == 0
        toc.append({'group': 'g%d' % (i // 4), 'name': 'p%d' % i, 'type': t, 'ro': i % 8 in (6, 7), 'core': i % 3 == 0, 'extended': ext, 'persistent': ext,
                    'value': (i + 1) if not isf else i + 0.5, 'default': default, 'stored': None})
    return {'version': version, 'log_toc': [], 'param_toc': toc, 'mems': []}


def _decode(t, b):
    return struct.unpack(PARAM_TYPES[t][1], b)[0]


def _same(a, b):
    if isinstance(a, float) and isinstance(b, float) and math.isnan(a) and math.isnan(b):
        return True
    return a == b


def run_params(case):
    out = Outcome()
    version = case['version']
    spec = make_spec(version, case['tseed'])
    toc = spec['param_toc']
    idw = 2 if version >= 4 else 1
    net = Net(needs_resending=False, delays=case['delays'], default_delay=0.001)
    resending = bool(case.get('resending'))
    if resending:
        net.delays = []     # the connection itself is set up without late replies (C03's subject); they start with the requests
    nthreads = len(case['threads'])
    with SimEnv(spec, net, case.get('schedule'), horizon=200.0) as env:
        s = env.s
        cf, rec = cfharness.make_cf(env)
        try:
            if not cfharness.connect(env, cf, rec, wait_for='fully_connected', timeout=60.0):
                out.fail('param:connect', 'events %r' % rec.names())
                return out
        except (Deadlock, Horizon) as e:
            out.fail('param:connect-hang', repr(e)[:300])
            return out
        dev = env.device
        link = env.world.links[0]
        # the first persistent-state query for some parameters is answered "no such entry"
        dev.state_enoent_budget = {i % len(toc): 1 for i in case.get('state_enoent', [])} if toc else {}
        if resending:
            # a radio-like link: requests not answered within 0.2 s are sent again, the device then answers twice
            link.needs_resending = True
            net.delays = list(case['delays'])
        # initial values
        for i, p in enumerate(toc):
            want = str(_decode(p['type'], dev.pack_param(i, dev.values[i])))
            got = cf.param.values.get(p['group'], {}).get(p['name'])
            if got != want:
                out.fail('param:initial-value', '%s.%s cached %r device %r' % (p['group'], p['name'], got, want))
        s.sleep(0.2)
        if case.get('prefix_after_connect') is not None:
            # systematic single preemptions: the k-th scheduling decision from here on goes to another thread
            s.prefix = list(case['prefix_after_connect'])
            s.ci = 0
        t0 = s.now
        n_tx0, n_rx0, n_log0 = len(link.tx), len(link.rx_log), len(dev.param_log)
        put0 = len(cf.param.param_updater.request_queue.put_log)
        calls = {'param': [], 'group': [], 'all': []}
        stale_in_cb = []
        once_calls = {}
        box_cb = {}
        names = ['%s.%s' % (p['group'], p['name']) for p in toc]
        for i, p in enumerate(toc):
            if i % 3 == 0:
                # a one-shot listener registered before the permanent one: it takes itself off the list from inside its call
                def once(n, v, p=p, box=[]):
                    once_calls[n] = once_calls.get(n, 0) + 1
                    if not box:
                        box.append(1)
                        cf.param.remove_update_callback(group=p['group'], name=p['name'], cb=box_cb[(p['group'], p['name'])])
                box_cb[(p['group'], p['name'])] = once
                cf.param.add_update_callback(group=p['group'], name=p['name'], cb=once)
            def per_param(n, v):
                calls['param'].append((s.now, n, v))
                # a listener that looks the value up instead of using its argument sees the value it is being told about
                try:
                    cached = cf.param.get_value(n)
                except Exception as e:  # noqa
                    cached = repr(e)
                if cached != v:
                    stale_in_cb.append((s.now, n, v, cached))
            cf.param.add_update_callback(group=p['group'], name=p['name'], cb=per_param)
        for g in sorted(set(p['group'] for p in toc)):
            cf.param.add_update_callback(group=g, name=None, cb=lambda n, v: calls['group'].append((s.now, n, v)))
        cf.param.add_update_callback(cb=lambda n, v: calls['all'].append((s.now, n, v)))

        results = []    # per op record
        done = [False] * nthreads
        boundary = False
        max_outstanding_misc = [0]
        outstanding = [0]

        def own(t, k):
            """the k-th parameter index owned by thread t with the wanted properties"""
            return [i for i in range(len(toc)) if i % nthreads == t]

        def runner(t, script):
            prev = [None]
            try:
                for op in script:
                    mine = own(t, 0)
                    if op['op'] in ('store', 'clear', 'state'):
                        cand = [i for i in mine if toc[i]['persistent']] or [i for i in range(len(toc)) if toc[i]['persistent']]
                        if not cand:
                            continue
                    elif op['op'] == 'default':
                        cand = [i for i in mine if version >= 4]
                        if not cand:
                            continue
                    else:
                        cand = mine
                    if op.get('shared'):
                        # one parameter queried by several threads at once, each with a different kind of request
                        cand = [i for i in range(len(toc)) if toc[i]['persistent']]
                        if not cand or (op['op'] == 'default' and version < 4):
                            continue
                    idx = cand[op['p'] % len(cand)]
                    if op.get('same') and prev[0] in cand:
                        idx = prev[0]
                    prev[0] = idx
                    p = toc[idx]
                    name = names[idx]
                    r = {'thread': t, 'op': op['op'], 'idx': idx, 'name': name, 'cb': [], 't': s.now}
                    results.append(r)
                    try:
                        if op['op'] == 'set':
                            val = _pick_value(p['type'], op)
                            r['value'] = val
                            cf.param.set_value(name if not op.get('unknown') else 'nosuch.param', val)
                            r['accepted'] = True
                        elif op['op'] == 'read':
                            cf.param.request_param_update(name)
                            r['accepted'] = True
                        elif op['op'] == 'get':
                            r['got'] = cf.param.get_value(name)
                        elif op['op'] in ('default', 'store', 'clear', 'state'):
                            outstanding[0] += 1
                            max_outstanding_misc[0] = max(max_outstanding_misc[0], outstanding[0])

                            def cb(n, v, r=r):
                                r['cb'].append((s.now, n, v))
                                outstanding[0] -= 1
                            {'default': cf.param.get_default_value, 'store': cf.param.persistent_store, 'clear': cf.param.persistent_clear,
                             'state': cf.param.persistent_get_state}[op['op']](name, cb)
                            r['accepted'] = True
                    except Exception as e:  # noqa
                        r['raised'] = e
                    if op.get('notify') and version >= 4 and op['op'] in ('set', 'read') and 'raised' not in r and not op.get('unknown'):
                        # the firmware announces a change of this very parameter while the request is on its way
                        link.deliver(dev.value_updated_packet(idx, _valid_value(p['type'], op['notify'])), delay=0.0005)
                        notif.append((s.now, idx, op['notify']))
                    if op.get('gap'):
                        s.sleep(op['gap'])
            finally:
                done[t] = True
        notif = []
        for t, script in enumerate(case['threads']):
            s.spawn(lambda t=t, script=script: runner(t, script), 'user%d' % t)
        # unsolicited notifications at drawn instants
        try:
            tprev = 0.0
            for nt in sorted(case['notifications'], key=lambda x: x['at']):
                s.sleep(max(0.0, nt['at'] - tprev))
                tprev = nt['at']
                idx = nt['p'] % len(toc)
                if version < 4:
                    continue
                p = toc[idx]
                val = _valid_value(p['type'], nt['v'])
                rep = dev.value_updated_packet(idx, val)
                link.deliver(rep, delay=0.0005)
                notif.append((s.now, idx, val))
            s.sleep(30.0)
        except (Deadlock, Horizon) as e:
            out.fail('param:hang', repr(e)[:300])
            return out
        if not all(done):
            out.fail('param:user-thread-stuck', 'threads finished: %r; %r' % (done, s.describe()))
        if s.deaths:
            out.fail('param:thread-died:' + s.deaths[0][1][:60], s.deaths[0][2][-500:])

        desc = 'v%d threads %r notifications %r delays %r' % (version, [[(o['op'], o['p'], o.get('value', o.get('vclass'))) for o in sc] for sc in case['threads']],
                                                          case['notifications'], case['delays'][:6])
        # ---------------- (a) transcript of writes; refusals
        dev_reqs = [(k, d, t) for (r, k, d, t) in dev.param_log[n_log0:] if r == 'req']
        dev_reps = [(k, d, t) for (r, k, d, t) in dev.param_log[n_log0:] if r == 'rep']
        for t in range(nthreads):
            sets = [r for r in results if r['thread'] == t and r['op'] == 'set']
            for idx in set(r['idx'] for r in sets):
                p = toc[idx]
                ops = [r for r in sets if r['idx'] == idx]
                wire = [d for k, d, tt in dev_reqs if k == 'write' and int.from_bytes(d[:idw], 'little') == idx]
                if resending:
                    wire = [d for j, d in enumerate(wire) if j == 0 or d != wire[j - 1]]
                expect = []
                unconstrained = False
                for r in ops:
                    v = r['value']
                    legal, enc = _expected_encoding(p, v)
                    if legal is None and not p['ro']:
                        unconstrained = True
                        continue
                    if p['ro'] or not legal:
                        boundary = boundary or not legal
                        if 'raised' not in r:
                            out.fail('param:set-not-refused:%s' % ('ro' if p['ro'] else 'range'), '%s: set_value(%s, %r) type %s did not raise' % (
                                desc, r['name'], v, PARAM_TYPES[p['type']][0]))
                    else:
                        if 'raised' in r:
                            out.fail('param:set-raised', '%s: set_value(%s, %r) raised %r' % (desc, r['name'], v, r['raised']))
                        else:
                            expect.append(idx.to_bytes(idw, 'little') + enc)
                if resending:
                    expect = [d for j, d in enumerate(expect) if j == 0 or d != expect[j - 1]]
                if wire != expect and not unconstrained:
                    out.fail('param:write-wire', '%s: %s (%s): device received %r, expected %r' % (
                        desc, names[idx], PARAM_TYPES[p['type']][0], [w.hex() for w in wire], [e.hex() for e in expect]))
        # unknown names
        # ---------------- (b) wire order == put order, one at a time
        puts = cf.param.param_updater.request_queue.put_log[put0:]
        put_seq = [(pk.channel, bytes(pk.data)) for pk in puts]
        wire_seq = [(ch, d) for tt, port, ch, d, c in link.tx[n_tx0:] if port == 2 and ch in (1, 2, 3)]
        if wire_seq != put_seq and not resending:
            out.fail('param:wire-order', '%s: queued %r, transmitted %r' % (desc, [(c, d.hex()) for c, d in put_seq][:12], [(c, d.hex()) for c, d in wire_seq][:12]))
        tx_times = [tt for tt, port, ch, d, c in link.tx[n_tx0:] if port == 2 and ch in (1, 2, 3)]
        # replies delivered (exclude notifications: misc cmd 1)
        rx = [(tt, ch, d) for tt, port, ch, d in link.rx_log[n_rx0:] if port == 2 and ch in (1, 2, 3) and not (ch == 3 and d[0] == 1)]
        # walk through transmissions and deliveries in time order: a request may only go out when the previous one has been
        # answered (a repeat of the outstanding request is a retransmission on a link that needs resending)
        def _pat(ch, d):
            # read and write replies carry no more than the parameter id: a late duplicate of an earlier reply on the same channel
            # for the same parameter cannot be told from the answer (protocol limit); one on the other channel can
            return (3, bytes(d[:3])) if ch == 3 else (ch, bytes(d[:idw]))
        merged = []
        for kind, j in link.order:
            if kind == 'tx' and j >= n_tx0:
                tt, port, ch, d, c = link.tx[j]
                if port == 2 and ch in (1, 2, 3):
                    merged.append((tt, 1, 'tx', ch, d))
            elif kind == 'rx' and j >= n_rx0:
                tt, port, ch, d = link.rx_log[j]
                if port == 2 and ch in (1, 2, 3) and not (ch == 3 and d[0] == 1):
                    merged.append((tt, 0, 'rx', ch, d))
        waiting = None
        spare = []
        ptr = 0
        for tt, _, kind, ch, d in merged:
            if kind == 'tx':
                this = (ch, bytes(d))
                if resending and this in put_seq[:ptr] and ptr < len(put_seq) and put_seq[ptr] == this:
                    # the next request to be issued is byte-identical to an earlier one: this transmission may be that request or a
                    # retransmission, the wire cannot tell - no verdict from here on
                    out.feat('walk-stopped-at-ambiguous-repeat')
                    break
                if resending and this in put_seq[:ptr]:
                    continue    # retransmission of an earlier request (its retry timer only stops on a reply on its own channel)
                if ptr >= len(put_seq) or put_seq[ptr] != this:
                    if resending:
                        out.fail('param:wire-order', '%s: queued %r, transmission %d is %r; order %r' % (desc, [(c, x.hex()) for c, x in put_seq][:12], ptr, (ch, bytes(d).hex()),
                                                                                                 [(round(a_, 3), k_, c_, bytes(d_).hex()) for a_, _x, k_, c_, d_ in merged][:14]))
                    break
                ptr += 1
                if waiting is not None:
                    # a reply taken from the link at this very instant may be handled by the dispatcher after the updater's next
                    # step (two threads, one virtual instant): an unused matching delivery of the same instant counts as the answer
                    credit = [x for x in spare if abs(x[0] - tt) < 1e-9 and x[1] == waiting[0]]
                    if credit:
                        spare.remove(credit[0])
                        waiting = None
                if waiting is not None:
                    out.fail('param:not-one-at-a-time', '%s: request %s sent at %.4f while %s (sent %.4f) was not answered yet; order %r' % (
                        desc, bytes(d).hex(), tt, waiting[1][1].hex(), waiting[2], [(round(a_, 3), k_, c_, bytes(d_).hex()) for a_, _x, k_, c_, d_ in merged if a_ >= waiting[2] - 0.45][:16]))
                    break
                waiting = (_pat(ch, d), this, tt)
            elif waiting is not None and _pat(ch, d) == waiting[0]:
                waiting = None
            else:
                spare.append((tt, _pat(ch, d)))
        for k in range(1, len(tx_times) if not resending else 0):
            if k - 1 >= len(rx):
                out.fail('param:not-one-at-a-time', '%s: request %d sent at %.4f but only %d replies were ever delivered' % (desc, k, tx_times[k], len(rx)))
                break
            if tx_times[k] < rx[k - 1][0]:
                out.fail('param:not-one-at-a-time', '%s: request %d sent at %.4f before the reply to request %d was delivered (%.4f)' % (
                    desc, k, tx_times[k], k - 1, rx[k - 1][0]))
                break
        # ---------------- (c) callbacks and cache follow every delivered value packet
        value_events = []
        for tt, port, ch, d in link.rx_log[n_rx0:]:
            if port != 2:
                continue
            if ch in (1, 2):
                idx = int.from_bytes(d[:idw], 'little')
                body = d[idw + (1 if (ch == 1 and version >= 4) else 0):]
            elif ch == 3 and d[0] == 1:
                idx = d[1] | (d[2] << 8)
                body = d[3:]
            else:
                continue
            if idx < len(toc):
                value_events.append((tt, names[idx], str(_decode(toc[idx]['type'], body))))
        for kind in ('param', 'group', 'all') if not resending else ():
            got = [(n, v) for tt, n, v in calls[kind]]
            want = [(n, v) for tt, n, v in value_events]
            if got != want:
                out.fail('param:update-callbacks:' + kind, '%s: value packets delivered %r, %s callbacks saw %r' % (desc, want[:10], kind, got[:10]))
        last = {}
        for tt, n, v in value_events:
            last[n] = v
        for i, p in enumerate(toc):
            want = last.get(names[i])
            if want is None or resending:    # with duplicated replies which value packet counts as the answer is not fixed
                continue
            got = cf.param.values.get(p['group'], {}).get(p['name'])
            try:
                gv = cf.param.get_value(names[i])
            except Exception as e:  # noqa
                gv = repr(e)
            if got != want or gv != want:
                out.fail('param:cached-value', '%s: %s cached %r get_value %r, last delivered device value %r' % (desc, names[i], got, gv, want))
        # ---------------- (d) misc replies to their own request, exactly once
        cmd_of = {'default': 6, 'store': 3, 'clear': 5, 'state': 4}
        for t in range(nthreads) if not resending else ():
            for kind, cmd in cmd_of.items():
                for idx in set(r['idx'] for r in results if r['thread'] == t and r['op'] == kind):
                    ops = [r for r in results if r['thread'] == t and r['op'] == kind and r['idx'] == idx and r.get('accepted')]
                    owners = set(r['thread'] for r in results if r['op'] == kind and r['idx'] == idx)
                    if len(owners) > 1:
                        continue
                    reps = [d for (r_, k, d, tt) in dev.param_log[n_log0:] if r_ == 'rep' and k == 'misc%d' % cmd and (d[1] | (d[2] << 8)) == idx]
                    if len(reps) != len(ops):
                        out.fail('param:misc-request-count', '%s: %d %s requests for %s, device answered %d' % (desc, len(ops), kind, names[idx], len(reps)))
                        continue
                    for r, rep in zip(ops, reps):
                        want = _misc_expect(kind, toc[idx], rep)
                        if want == 'ambiguous':
                            out.feat('excluded-enoent-ambiguity')
                            continue
                        if len(r['cb']) != 1:
                            out.fail('param:misc-callback-count:%s' % kind, '%s: %s(%s) callback invoked %d times: %r' % (desc, kind, r['name'], len(r['cb']), r['cb']))
                            continue
                        tt, n, v = r['cb'][0]
                        if n != r['name'] or not _misc_equal(v, want):
                            out.fail('param:misc-cross-attribution:%s' % kind, '%s: %s(%s) callback got (%r, %r), its own reply %s means %r' % (
                                desc, kind, r['name'], n, v, rep.hex(), want))
        # gets
        for r in results:
            if r['op'] == 'get' and 'raised' in r:
                out.fail('param:get-raised', '%s: get_value(%s) raised %r' % (desc, r['name'], r['raised']))
        cf.close_link()
        s.sleep(2.0)
    # every listener of a parameter gets its value: the one-shot listeners (registered first) saw exactly the first update
    for n_ in sorted(set(n for (t_, n, v) in calls['param'])):
        if n_ in ['%s.%s' % (p['group'], p['name']) for i, p in enumerate(toc) if i % 3 == 0] and once_calls.get(n_, 0) != 1:
            out.fail('param:listener-missed', '%s: %s was updated %d time(s), the one-shot listener registered before the permanent one was called %d time(s)' % (
                desc, n_, len([1 for (t_, n, v) in calls['param'] if n == n_]), once_calls.get(n_, 0)))
            break
    if stale_in_cb:
        t_, n_, v_, c_ = stale_in_cb[0]
        out.fail('param:cache-behind-notification', '%s: listener of %s notified of %r at %.4f, get_value() inside it returned %r' % (desc, n_, v_, t_, c_))
    issuing = len([t for t in case['threads'] if t])
    out.nontrivial = issuing >= 2 or max_outstanding_misc[0] >= 3 or boundary or any(_is_boundary(toc, r) for r in results if r['op'] == 'set')
    out.feat('threads-%d' % issuing, 'v%d' % version, 'link-needs-resending' if resending else 'reliable-link', 'misc-outstanding-%d' % min(max_outstanding_misc[0], 3),
             'notifications' if notif else 'no-notifications', 'boundary' if out.nontrivial and issuing < 2 else 'plain')
    return out


def _is_boundary(toc, r):
    p = toc[r['idx']]
    v = r.get('value')
    try:
        if p['type'] in RANGES:
            lo, hi = RANGES[p['type']]
            iv = int(v)
            return iv in (lo, hi, lo - 1, hi + 1)
        fv = float(v)
        return math.isnan(fv) or math.isinf(fv) or abs(fv) >= F32MAX
    except Exception:  # noqa
        return True


def _pick_value(t, op):
    """value for a set_value op, chosen relative to the parameter's declared type"""
    if 'vclass' not in op:
        return op['value']
    c, n = op['vclass'], op.get('n', 0)
    if t in RANGES:
        lo, hi = RANGES[t]
        span = hi - lo
        table = {'min': lo, 'max': hi, 'below': lo - 1, 'above': hi + 1, 'zero': 0, 'neg1': -1, 'near-max': hi - 1 - n % 3,
                 'odd-high': hi - 2 * (n % 1000) if hi > 2 ** 53 else hi - (n % 7), 'random': lo + (n * 2654435761) % (span + 1),
                 'far-above': hi * 2 + n, 'far-below': lo * 2 - 1 - n, 'str': str(lo + (n % (span + 1))), 'p53': min(hi, 2 ** 53 + 1 + 2 * (n % 50))}
        return table.get(c, n % (hi + 1))
    table = {'min': -F32MAX, 'max': F32MAX, 'below': -1e39, 'above': 1e39, 'zero': 0.0, 'neg1': -1.0, 'near-max': 3.4e38, 'odd-high': float('nan'),
             'random': (n % 200000) / 64.0 - 1000.0, 'far-above': float('inf'), 'far-below': float('-inf'), 'str': str((n % 1000) / 8.0), 'p53': 1e-45}
    return table.get(c, float(n))


def _valid_value(t, v):
    if t in RANGES:
        lo, hi = RANGES[t]
        return lo + (int(v) % (hi - lo + 1))
    return float(v) / 7.0


def _expected_encoding(p, v):
    """(legal, bytes) under the declared type; legal False => the library must raise"""
    t = p['type']
    fmt = PARAM_TYPES[t][1]
    try:
        if t in RANGES:
            if isinstance(v, float) and (math.isnan(v) or math.isinf(v) or v != int(v)):
                return None, None       # non-integral input for an integer parameter: not claimed either way
            if isinstance(v, str):
                try:
                    int(v)
                except ValueError:
                    return None, None
            iv = int(v)
            lo, hi = RANGES[t]
            if not (lo <= iv <= hi):
                return False, None
            return True, struct.pack(fmt, iv)
        fv = float(v)
        if t == 6 and math.isfinite(fv) and abs(fv) > F32MAX:
            # beyond float32: struct either raises (OverflowError) - accept both raising and nothing else
            try:
                return True, struct.pack(fmt, fv)
            except (OverflowError, struct.error):
                return False, None
        return True, struct.pack(fmt, fv)
    except (ValueError, TypeError, OverflowError):
        return False, None


def _misc_expect(kind, p, rep):
    fmt = PARAM_TYPES[p['type']][1]
    body = rep[3:]
    if kind in ('store', 'clear'):
        return body[0] == 0
    if kind == 'default':
        size = struct.calcsize(fmt)
        if len(body) == 1 and size != 1:
            return None if body[0] == ENOENT else 'ambiguous'
        if body[0] == ENOENT:
            return 'ambiguous'
        return struct.unpack(fmt, body[:size])[0]
    if kind == 'state':
        if body[0] == ENOENT and len(body) == 1:
            return None
        stored = body[0] == 1
        size = struct.calcsize(fmt)
        default = struct.unpack(fmt, body[1:1 + size])[0]
        sv = struct.unpack(fmt, body[1 + size:1 + 2 * size])[0] if stored else None
        return (stored, default, sv)
    return None


def _misc_equal(v, want):
    if isinstance(want, tuple):
        return v is not None and len(tuple(v)) == len(want) and all(_same(a, b) and type(a) is type(b) for a, b in zip(tuple(v), want))
    return _same(v, want) and type(v) is type(want) if want is not None and not isinstance(want, bool) else v == want


_intvals = st.one_of(st.integers(-2 ** 64, 2 ** 64), st.sampled_from([0, 1, -1, 127, 128, -128, -129, 255, 256, 32767, 32768, -32768, -32769, 65535, 65536,
                                                                    2 ** 31 - 1, 2 ** 31, -2 ** 31, -2 ** 31 - 1, 2 ** 32 - 1, 2 ** 32, 2 ** 53 + 1, 2 ** 63 - 1,
                                                                    2 ** 63, -2 ** 63, -2 ** 63 - 1, 2 ** 64 - 1, 2 ** 64, '12', '-7', '255']))
_fvals = st.one_of(st.floats(allow_nan=True, allow_infinity=True), st.sampled_from([0.0, -0.0, 1.5, F32MAX, -F32MAX, 1e39, 1e-45, float('inf'), '3.25', 7]))


@st.composite
def _op(draw):
    kind = draw(st.sampled_from(['set', 'set', 'set', 'read', 'get', 'default', 'store', 'clear', 'state', 'state']))
    op = {'op': kind, 'p': draw(st.integers(0, 15)), 'gap': draw(st.sampled_from([0, 0, 0, 0.0005, 0.02, 0.3])),
          'same': draw(st.sampled_from([False, False, True]))}
    if kind in ('set', 'read') and draw(st.sampled_from([False, False, False, True])):
        op['notify'] = draw(st.integers(1, 1000))
    if kind == 'set':
        if draw(st.booleans()):
            op['vclass'] = draw(st.sampled_from(['min', 'max', 'below', 'above', 'zero', 'neg1', 'near-max', 'odd-high', 'random', 'random', 'far-above',
                                                 'far-below', 'str', 'p53']))
            op['n'] = draw(st.integers(0, 10 ** 9))
        else:
            op['value'] = draw(st.one_of(_intvals, _intvals, _fvals))
        op['unknown'] = False
    return op


_sched = st.fixed_dictionaries({'prefix': st.lists(st.integers(0, 3), max_size=40), 'seed': st.integers(0, 10 ** 6),
                                'rate': st.sampled_from([0.0, 0.05, 0.2, 0.5])})


@st.composite
def param_case(draw):
    nt = draw(st.sampled_from([1, 2, 2, 3]))
    threads = [draw(st.lists(_op(), min_size=1, max_size=7)) for _ in range(nt)]
    # bursts of requests for one and the same parameter (replies must go to the request they answer, in order)
    for th in threads:
        if draw(st.sampled_from([False, True, True])):
            pidx = draw(st.integers(0, 15))
            kinds = draw(st.sampled_from([['state', 'store', 'state'], ['store', 'state', 'clear', 'state'], ['state', 'clear', 'state', 'store', 'state'],
                                          ['set', 'read', 'set'], ['default', 'default']]))
            pos = draw(st.integers(0, len(th)))
            burst = []
            for k, kind in enumerate(kinds):
                op = {'op': kind, 'p': pidx, 'gap': 0, 'same': k > 0}
                if kind == 'set':
                    op['value'] = draw(st.integers(0, 100))
                    op['unknown'] = False
                burst.append(op)
            th[pos:pos] = burst
    contended = False
    if nt >= 2 and draw(st.booleans()):
        pidx = draw(st.integers(0, 15))
        kinds = draw(st.permutations(['default', 'state', 'store', 'clear']))
        contended = True
        rep = draw(st.integers(1, 3))
        for th, kind in zip(threads, kinds):
            th[0:0] = [{'op': kind, 'p': pidx, 'gap': 0, 'same': False, 'shared': True} for _ in range(rep)]
    notifications = draw(st.lists(st.fixed_dictionaries({'at': st.sampled_from([0.0, 0.0005, 0.001, 0.002, 0.01, 0.05, 0.3]), 'p': st.integers(0, 15),
                                                         'v': st.integers(0, 1000)}), max_size=4))
    sched = draw(_sched)
    if contended:
        sched['rate'] = draw(st.sampled_from([0.2, 0.5, 0.5]))     # without preemption the threads simply run one after the other
    return {'version': draw(st.sampled_from([10, 10, 4, 3, 0])), 'tseed': draw(st.integers(0, 9)), 'threads': threads, 'notifications': notifications,
            'delays': draw(st.lists(st.sampled_from([0.0, 0.0, 0.001, 0.001, 0.003, 0.01, 0.05, 0.3]), min_size=1, max_size=6)), 'schedule': sched,
            'resending': draw(st.sampled_from([False, False, False, True])),
            'state_enoent': draw(st.one_of(st.just([]), st.lists(st.integers(0, 15), max_size=3)))}


def single_preemption_cases(tier):
    """replies without latency, fixed two-thread scripts, exactly one forced thread switch at the k-th scheduling decision"""
    scripts = [
        [[{'op': 'default', 'p': 0, 'gap': 0, 'same': False, 'shared': True}, {'op': 'set', 'p': 1, 'gap': 0, 'same': False, 'value': 4, 'unknown': False},
          {'op': 'store', 'p': 0, 'gap': 0, 'same': False, 'shared': True}],
         [{'op': 'state', 'p': 0, 'gap': 0, 'same': False, 'shared': True}, {'op': 'set', 'p': 0, 'gap': 0, 'same': False, 'value': 3, 'unknown': False},
          {'op': 'read', 'p': 1, 'gap': 0, 'same': False}]],
        [[{'op': 'state', 'p': 0, 'gap': 0, 'same': False, 'shared': True}, {'op': 'clear', 'p': 0, 'gap': 0, 'same': False, 'shared': True}],
         [{'op': 'default', 'p': 0, 'gap': 0, 'same': False, 'shared': True}, {'op': 'store', 'p': 0, 'gap': 0, 'same': False, 'shared': True}]],
        [[{'op': 'set', 'p': 2, 'gap': 0, 'same': False, 'value': 1, 'unknown': False}, {'op': 'set', 'p': 2, 'gap': 0, 'same': True, 'value': 2, 'unknown': False},
          {'op': 'read', 'p': 2, 'gap': 0, 'same': True}],
         [{'op': 'read', 'p': 3, 'gap': 0, 'same': False, 'notify': 7}, {'op': 'clear', 'p': 0, 'gap': 0, 'same': False}]],
    ]
    for si, threads in enumerate(scripts):
        for k in range(0, 60 if tier == 'quick' else 200):
            for other in (1, 2):
                yield {'version': 10, 'tseed': si, 'threads': threads, 'notifications': [], 'delays': [0.0], 'resending': False,
                       'schedule': {'prefix': [], 'seed': 0, 'rate': 0.0}, 'prefix_after_connect': [0] * k + [other]}


def boundary_cases(tier):
    """every parameter of the table (all ten types at writable positions over the two table layouts) set to every boundary class in turn"""
    for tseed in (0, 4):
        for version in (10, 3):
            for group in range(4):
                ops = []
                for p_ in range(group * 4, group * 4 + 4):
                    for k, vc in enumerate(('min', 'max', 'below', 'above', 'near-max', 'zero', 'neg1', 'far-above', 'far-below', 'str')):
                        ops.append({'op': 'set', 'p': p_, 'gap': 0, 'same': False, 'vclass': vc, 'n': 17 * k + p_, 'unknown': False})
                    ops.append({'op': 'read', 'p': p_, 'gap': 0, 'same': False})
                yield {'version': version, 'tseed': tseed, 'threads': [ops], 'notifications': [], 'delays': [0.001], 'resending': False,
                       'schedule': {'prefix': [], 'seed': 0, 'rate': 0.0}}


def subchecks(tier):
    return [Sub('boundaries', run_params, cases=boundary_cases, distinct_by_construction=True),
            Sub('scripts', run_params, strategy=param_case(), examples={'quick': 360, 'thorough': 12000}),
            Sub('single-preemptions', run_params, cases=single_preemption_cases, distinct_by_construction=True)]
