"""C18: CPX codec, TCP stream re-assembly under any fragmentation, per-function routing, CRTP tunnel."""
import contextlib
import io
import itertools
import struct
import threading
import time

from hypothesis import strategies as st

from vlib.runner import Outcome, Sub

PROPERTY = 'C18'
LEVEL = 'exploration'
SHARDS = {'quick': 4, 'thorough': 16}
WATCHDOG = {'quick': 900, 'thorough': 4 * 3600}
RULE = ('codec: every (source, destination, function, last-packet) combination x payload lengths {0,1,2,29,30,31,100,1022} enumerated and '
        'round-tripped, plus version bits 1..3 rejected. framing: generated packet sequences -> reference byte stream (native uint16 length '
        '= payload+2, 2 header bytes, payload) -> the real SocketTransport.readPacket over an in-memory socket; ALL 2^(n-1) compositions of '
        'streams up to a bound are enumerated (sub "framing-exhaustive"), random cuts for longer streams; writePacket decoded independently. '
        'routing: the real CPXRouter.run() on the harness thread over a scripted transport with receivers registering before/during the '
        'stream. tunnel: the real TcpDriver (router + receive threads) over an in-memory socket in lock-step. Non-trivial = stream cut '
        'inside a length prefix or header, >= 2 functions interleaved, or header-only/empty-payload packets. framing-large: payloads up to 65533 '
        'bytes (limit of the 16-bit length prefix). routing histories include bursts of 20..300 packets of one function and transactions on a '
        'function with packets waiting; the tunnels send some packet objects twice.')
ASSUMPTIONS = ['recv(n) returns at most n bytes and never crosses an arrival-fragment boundary (standard stream-socket model)',
               'a CPX function queue exists only after its first receivePacket call (documented in the code); earlier packets may be dropped',
               'tunnel sub-check waits for worker threads with a real-time harness watchdog only (never a verdict)']


class _End(BaseException):
    pass


class _ScriptSocket:
    def __init__(self, stream, cuts):
        """cuts: sorted offsets where arrival fragments end"""
        self.stream = bytes(stream)
        self.pos = 0
        self.bounds = sorted(set([c for c in cuts if 0 < c < len(stream)] + [len(stream)]))
        self.sent = bytearray()
        self.recv_calls = 0

    def connect(self, addr):
        pass

    def recv(self, n):
        self.recv_calls += 1
        if self.pos >= len(self.stream):
            raise _End()
        end = next(b for b in self.bounds if b > self.pos)
        end = min(end, self.pos + n)
        data = self.stream[self.pos:end]
        self.pos = end
        return data

    def send(self, data):
        self.sent += bytes(data)
        return len(data)

    def shutdown(self, how):
        pass

    def close(self):
        pass


class _SockShim:
    AF_INET = 2
    SOCK_STREAM = 1
    SHUT_WR = 1

    def __init__(self, sock):
        self._sock = sock

    def socket(self, *a):
        return self._sock


def _targets():
    from cflib.cpx import CPXTarget
    return list(CPXTarget)


def _functions():
    from cflib.cpx import CPXFunction
    return list(CPXFunction)


def _ref_wire(src, dst, fn, last, payload, version=0):
    return bytes([((src & 7) << 3) | (dst & 7) | (0x40 if last else 0), (fn & 0x3f) | ((version & 3) << 6)]) + bytes(payload)


def _mk(pk):
    from cflib.cpx import CPXFunction, CPXPacket, CPXTarget
    p = CPXPacket(function=CPXFunction(pk['fn']), destination=CPXTarget(pk['dst']), source=CPXTarget(pk['src']), data=bytearray(pk['data']))
    p.lastPacket = pk['last']
    return p


def _same(p, pk):
    return (p.source.value, p.destination.value, p.function.value, bool(p.lastPacket), bytes(p.data)) == \
        (pk['src'], pk['dst'], pk['fn'], pk['last'], bytes(pk['data'])) and p.length == len(pk['data'])


# ---------------------------------------------------------------- (a) codec
def run_codec(case):
    from cflib.cpx import CPXPacket
    out = Outcome(nontrivial=True)
    if case.get('version'):
        out.feat('codec-bad-version')
        raw = _ref_wire(case['src'], case['dst'], case['fn'], case['last'], case['data'], version=case['version'])
        try:
            with contextlib.redirect_stderr(io.StringIO()):
                p = CPXPacket()
                p.wireData = raw
        except RuntimeError:
            return out
        except Exception as e:  # noqa
            out.fail('codec:bad-version-other-exception', repr(e))
            return out
        out.fail('codec:bad-version-accepted', 'version %d accepted' % case['version'])
        return out
    out.feat('codec-len-%d' % len(case['data']))
    p = _mk(case)
    raw = bytes(p.wireData)
    want = _ref_wire(case['src'], case['dst'], case['fn'], case['last'], case['data'])
    if raw != want:
        out.fail('codec:encode', '%r encodes to %s, expected %s' % (case, raw[:8].hex(), want[:8].hex()))
    q = CPXPacket()
    q.wireData = bytearray(want)
    if not _same(q, case):
        out.fail('codec:decode', '%r decodes to %s' % ({k: v for k, v in case.items() if k != 'data'}, q))
    return out


def codec_cases(tier):
    ts = [t.value for t in _targets()]
    fs = [f.value for f in _functions()]
    lens = [0, 1, 2, 29, 30, 31, 100, 1022]
    for s, d, f, last in itertools.product(ts, ts, fs, [False, True]):
        for n in lens:
            yield {'src': s, 'dst': d, 'fn': f, 'last': last, 'data': [(i * 7 + n) & 0xff for i in range(n)]}
        for v in (1, 2, 3):
            yield {'src': s, 'dst': d, 'fn': f, 'last': last, 'data': [1, 2, 3], 'version': v}


# ---------------------------------------------------------------- (b) framing
def _stream(pkts):
    out = bytearray()
    for pk in pkts:
        body = _ref_wire(pk['src'], pk['dst'], pk['fn'], pk['last'], pk['data'])
        out += struct.pack('H', len(body)) + body
    return bytes(out)


def _read_all(stream, cuts, npk):
    import cflib.cpx.transports as T
    sock = _ScriptSocket(stream, cuts)
    orig = T.socket
    T.socket = _SockShim(sock)
    try:
        with contextlib.redirect_stdout(io.StringIO()):
            tr = T.SocketTransport('h', 1)
    finally:
        T.socket = orig
    got = []
    err = None
    try:
        for _ in range(npk + 1):
            got.append(tr.readPacket())
    except _End:
        pass
    except Exception as e:  # noqa
        err = e
    return got, err, sock


def run_framing(case):
    out = Outcome()
    pkts = case['packets']
    stream = _stream(pkts)
    cuts = case['cuts']
    # boundaries of length prefixes / headers
    inner = set()
    pos = 0
    for pk in pkts:
        inner.update([pos + 1, pos + 3])
        pos += 4 + len(pk['data'])
    out.nontrivial = bool(inner & set(cuts))
    out.feat('cut-in-prefix-or-header' if out.nontrivial else 'cut-elsewhere', 'packets-%d' % min(len(pkts), 4))
    got, err, sock = _read_all(stream, cuts, len(pkts))
    if err is not None:
        out.fail('framing:exception', 'stream %s cuts %r: %r' % (stream.hex(), cuts, err))
        return out
    if len(got) != len(pkts) or not all(_same(g, p) for g, p in zip(got, pkts)):
        out.fail('framing:sequence', 'stream %s cuts %r: sent %d packets, re-assembled %r' % (
            stream.hex(), cuts, len(pkts), [(g.source.value, g.destination.value, g.function.value, g.lastPacket, bytes(g.data).hex()) for g in got]))
    return out


def run_framing_large(case):
    """payload lengths up to what the 16-bit length prefix of the stream allows (65533), a short packet before and after"""
    out = Outcome(nontrivial=True)
    pkts = []
    for k, L in enumerate(case['lengths']):
        pkts.append({'src': 1 + k % 4, 'dst': 3, 'fn': [3, 5, 1][k % 3], 'last': k % 2 == 1, 'data': [(i * 7 + L + k) & 0xff for i in range(L)]})
    stream = _stream(pkts)
    out.feat('large-payload-%s' % ('>=32766' if max(case['lengths']) >= 32766 else '<32766'))
    got, err, sock = _read_all(stream, [c for c in case['cuts'] if 0 < c < len(stream)], len(pkts))
    desc = 'payload lengths %r cuts %r' % (case['lengths'], case['cuts'])
    if err is not None:
        out.fail('framing:exception', '%s: %r' % (desc, err))
        return out
    if len(got) != len(pkts) or not all(_same(g, p) for g, p in zip(got, pkts)):
        out.fail('framing:sequence', '%s: sent %d packets, re-assembled %d with payload lengths %r' % (desc, len(pkts), len(got), [len(g.data) for g in got][:6]))
    return out


def framing_large_cases(tier):
    for L in (1023, 4096, 32765, 32766, 32767, 40000, 65532, 65533):
        for cuts in ([], [1], [2, 3], [L // 2], [L + 3, L + 5], [7, L + 4 + 9 + 1]):
            yield {'lengths': [3, L, 2], 'cuts': cuts}
        yield {'lengths': [L, L], 'cuts': [L]}


def run_framing_exhaustive(case):
    """one case = one packet sequence; all compositions of its stream are enumerated inside"""
    out = Outcome(nontrivial=True)
    pkts = case['packets']
    stream = _stream(pkts)
    n = len(stream)
    out.feat('exhaustive-stream-len-%d' % n)
    count = 0
    for mask in range(1 << (n - 1)):
        cuts = [i + 1 for i in range(n - 1) if mask >> i & 1]
        got, err, sock = _read_all(stream, cuts, len(pkts))
        count += 1
        if err is not None or len(got) != len(pkts) or not all(_same(g, p) for g, p in zip(got, pkts)):
            out.fail('framing:sequence', 'stream %s cuts %r: error %r, re-assembled %d packets' % (stream.hex(), cuts, err, len(got)))
            break
    out.feat(*(['composition'] * 0))
    case['_compositions'] = count
    return out


def framing_exhaustive_cases(tier):
    maxlen = 12 if tier == 'quick' else 17
    seqs = [
        [[3, 1, 3, False, [0x3c]]],
        [[3, 1, 3, False, []], [1, 3, 3, True, [1, 2]]],
        [[3, 1, 1, False, [9]], [3, 1, 3, False, [7]]],
        [[4, 3, 5, True, [1, 2, 3, 4, 5, 6, 7]]],
        [[3, 1, 3, False, []], [3, 1, 3, False, []], [3, 1, 3, False, []]],
        [[3, 1, 3, False, [0xff, 0xff]], [2, 3, 2, False, [0, 0, 0]]],
        [[1, 3, 3, False, [0x0c, 1, 2, 3, 4, 5]], [1, 3, 3, False, [0xfc]]],
        [[3, 1, 3, False, [1]], [3, 1, 3, False, [2]], [3, 1, 3, False, [3]]],
    ]
    for s in seqs:
        pk = [{'src': a, 'dst': b, 'fn': f, 'last': l, 'data': d} for a, b, f, l, d in s]
        if len(_stream(pk)) <= maxlen:
            yield {'packets': pk}


_pk = st.builds(lambda s, d, f, l, data: {'src': s, 'dst': d, 'fn': f, 'last': l, 'data': data},
                st.sampled_from([1, 2, 3, 4]), st.sampled_from([1, 2, 3, 4]), st.sampled_from([1, 2, 3, 4, 5, 0x0e, 0x0f]), st.booleans(),
                st.one_of(st.lists(st.integers(0, 255), max_size=6), st.lists(st.integers(0, 255), max_size=40),
                          st.sampled_from([[], [0], [0xff] * 31, [0] * 30])))


@st.composite
def framing_strategy(draw):
    pkts = draw(st.lists(_pk, min_size=1, max_size=6))
    n = len(_stream(pkts))
    mode = draw(st.sampled_from(['few', 'many', 'every']))
    if mode == 'every':
        cuts = list(range(1, n))
    else:
        cuts = sorted(set(draw(st.lists(st.integers(1, max(1, n - 1)), max_size=3 if mode == 'few' else 40))))
    return {'packets': pkts, 'cuts': cuts}


def run_write(case):
    import cflib.cpx.transports as T
    out = Outcome()
    pkts = case['packets']
    out.nontrivial = len(pkts) >= 2 or any(not p['data'] for p in pkts)
    out.feat('write-%d' % min(len(pkts), 3))
    sock = _ScriptSocket(b'', [])
    orig = T.socket
    T.socket = _SockShim(sock)
    try:
        with contextlib.redirect_stdout(io.StringIO()):
            tr = T.SocketTransport('h', 1)
    finally:
        T.socket = orig
    for pk in pkts:
        tr.writePacket(_mk(pk))
    if bytes(sock.sent) != _stream(pkts):
        out.fail('framing:write', 'wrote %s expected %s' % (bytes(sock.sent).hex(), _stream(pkts).hex()))
    return out


def run_write_concurrent(case):
    """two threads send one packet each through one SocketTransport (the application and the CRTP tunnel share the CPX link); the
    harness decides in which order their calls on the socket take place: the stream must still be the two frames, whole, in either order"""
    import threading
    import cflib.cpx.transports as T
    from props.c11_cache import _Gate
    out = Outcome()
    pkts = case['packets']
    gate = _Gate(case['order'])

    class _GatedSocket(_ScriptSocket):
        def send(self, data):
            gate.turn()
            return _ScriptSocket.send(self, data)

        def sendall(self, data):
            gate.turn()
            _ScriptSocket.send(self, data)
    sock = _GatedSocket(b'', [])
    orig = T.socket
    T.socket = _SockShim(sock)
    try:
        with contextlib.redirect_stdout(io.StringIO()):
            tr = T.SocketTransport('h', 1)
    finally:
        T.socket = orig
    errors = []

    def worker(i):
        gate.tid.v = i
        try:
            tr.writePacket(_mk(pkts[i]))
        except Exception as e:  # noqa
            errors.append(repr(e))
        finally:
            gate.finish(i)
    ths = [threading.Thread(target=worker, args=(i,), daemon=True) for i in range(len(pkts))]
    for t in ths:
        t.start()
    for t in ths:
        t.join(30)
    out.nontrivial = len(set(case['order'][:3])) > 1
    out.feat('senders-interleaved' if out.nontrivial else 'senders-one-after-the-other')
    if errors:
        out.fail('framing:write-raised:concurrent', repr(errors[:2]))
    got = bytes(sock.sent)
    if got not in (_stream(pkts), _stream(pkts[::-1])):
        out.fail('framing:write:concurrent-senders', 'two senders, socket calls in the order %r: stream %s is neither %s nor %s' % (
            case['order'], got.hex(), _stream(pkts).hex(), _stream(pkts[::-1]).hex()))
    return out


def write_concurrent_cases(tier):
    import itertools
    a = {'src': 3, 'dst': 2, 'fn': 5, 'last': True, 'data': [1, 2, 3, 4, 5]}
    b = {'src': 3, 'dst': 4, 'fn': 3, 'last': False, 'data': [0xAA] * 9}
    for order in itertools.product((0, 1), repeat=4):
        yield {'packets': [a, b], 'order': list(order)}


# ---------------------------------------------------------------- (c) routing
class _NoWaitQueueModule:
    """stands in for the `queue` module inside cflib.cpx while the single-threaded harness makes a transaction: a queue created in
    there that is empty raises Empty instead of blocking for ever"""
    import queue as _queue
    Empty = _queue.Empty
    Full = _queue.Full

    class Queue(_queue.Queue):
        def get(self, block=True, timeout=None):
            return _NoWaitQueueModule._queue.Queue.get(self, False)


class _ScriptTransport:
    def __init__(self, events, on_event):
        self.events = list(events)
        self.i = 0
        self.on_event = on_event
        self.written = []

    def writePacket(self, pk):
        self.written.append(pk)

    def readPacket(self):
        while True:
            if self.i >= len(self.events):
                raise _End()
            ev = self.events[self.i]
            self.i += 1
            if ev[0] == 'packet':
                return ev[1]
            if ev[0] == 'error':
                # a frame the transport rejects (unsupported version, broken stream): the router must carry on
                raise RuntimeError('Unsupported CPX version 1 instead of 0')
            self.on_event(ev)


def run_routing(case):
    import queue as _q
    from cflib.cpx import CPXFunction, CPXRouter
    out = Outcome()
    events = case['events']  # ['register', fn] | ['packet', pk] | ['take', fn]
    registered = set()
    expected = {}
    taken = {}
    router_box = {}

    def on_event(ev):
        r = router_box['r']
        fn = CPXFunction(ev[1])
        with contextlib.redirect_stdout(io.StringIO()):
            if ev[0] == 'transact':
                # a request/answer exchange on a function whose queue already holds packets: the oldest one is the "answer"
                # (the harness is single threaded: only done when something is waiting, an empty queue would block for ever)
                q_ = r._rxQueues.get(ev[1])
                if q_ is not None and not q_.empty():
                    out.feat('routing-transaction-with-packets-waiting')
                    sent0 = len(tr.written)
                    import cflib.cpx as cpxmod
                    real_q = cpxmod.queue
                    cpxmod.queue = _NoWaitQueueModule()
                    try:
                        p = r.makeTransaction(_mk({'src': 1, 'dst': 3, 'fn': ev[1], 'last': False, 'data': [0xEE]}))
                        taken.setdefault(ev[1], []).append(p)
                    except _q.Empty:
                        out.fail('routing:transaction-lost-waiting-packets', 'makeTransaction on function %d found nothing although packets of it were waiting' % ev[1])
                    finally:
                        cpxmod.queue = real_q
                    if len(tr.written) != sent0 + 1:
                        out.fail('routing:transaction-send', 'makeTransaction wrote %d packets' % (len(tr.written) - sent0))
                return
            try:
                p = r.receivePacket(fn, timeout=0)
                taken.setdefault(ev[1], []).append(p)
            except _q.Empty:
                pass
        registered.add(ev[1])
    evs = []
    seq = 0
    for ev in events:
        if ev[0] == 'error':
            evs.append(('error', None))
            continue
        if ev[0] == 'burst':
            # many packets of one function arrive before the receiver looks again
            for _i in range(ev[2]):
                pk = {'src': 1, 'dst': 3, 'fn': ev[1], 'last': False, 'data': [seq & 0xff, seq >> 8]}
                seq += 1
                evs.append(('packet', _mk(pk), pk))
            out.feat('routing-burst')
            continue
        if ev[0] == 'packet':
            pk = dict(ev[1])
            pk['data'] = [seq & 0xff, seq >> 8] + list(pk['data'])
            seq += 1
            evs.append(('packet', _mk(pk), pk))
        else:
            evs.append((ev[0], ev[1]))
    # the model: a packet is required iff its function was registered before it was read
    model_reg = set()
    required = {}
    optional = {}
    for ev in evs:
        if ev[0] == 'packet':
            (required if ev[2]['fn'] in model_reg else optional).setdefault(ev[2]['fn'], []).append(ev[2])
        elif ev[0] not in ('error', 'transact'):
            model_reg.add(ev[1])
    tr = _ScriptTransport([(e[0], e[1]) for e in evs], on_event)
    router_box['tr'] = tr
    router = CPXRouter(tr)
    router_box['r'] = router
    try:
        with contextlib.redirect_stdout(io.StringIO()):
            router.run()
    except _End:
        pass
    # drain
    for fn in sorted(model_reg):
        while True:
            try:
                with contextlib.redirect_stdout(io.StringIO()):
                    taken.setdefault(fn, []).append(router.receivePacket(CPXFunction(fn), timeout=0))
            except _q.Empty:
                break
    fns = set(ev[2]['fn'] for ev in evs if ev[0] == 'packet')
    out.nontrivial = len(fns) >= 2 and bool(model_reg & fns)
    out.feat('routing-fns-%d' % min(len(fns), 3), 'routing-late-registration' if any(optional.values()) and model_reg else 'routing-early')
    for fn in set(list(taken) + list(required)):
        got = taken.get(fn, [])
        if any(g.function.value != fn for g in got):
            out.fail('routing:cross-delivery', 'receiver of function %d got %r' % (fn, [g.function.value for g in got]))
            continue
        gseq = [bytes(g.data) for g in got]
        req = [bytes(p['data']) for p in required.get(fn, [])]
        opt = [bytes(p['data']) for p in optional.get(fn, [])]
        # got must be: (some suffix-subset of optional, in order) followed by exactly required in order
        if gseq[len(gseq) - len(req):] != req or len(gseq) < len(req):
            out.fail('routing:order-or-loss', 'function %d: required %r got %r' % (fn, [r.hex() for r in req], [g.hex() for g in gseq]))
            continue
        head = gseq[:len(gseq) - len(req)]
        it = iter(opt)
        if not all(any(h == o for o in it) for h in head):
            out.fail('routing:invented', 'function %d: unexpected packets %r' % (fn, [h.hex() for h in head]))
    return out


@st.composite
def routing_strategy(draw):
    fns = draw(st.lists(st.sampled_from([1, 2, 3, 4, 5, 0x0e, 0x0f]), min_size=1, max_size=4, unique=True))
    n = draw(st.integers(1, 25))
    events = []
    for _ in range(n):
        k = draw(st.sampled_from(['packet', 'packet', 'packet', 'packet', 'register', 'take', 'transact', 'error'] + (['burst'] if _ < 4 else [])))
        if k == 'burst':
            events.append(['burst', draw(st.sampled_from(fns)), draw(st.sampled_from([20, 33, 40, 70, 130, 300]))])
            continue
        if k == 'error':
            events.append(['error', 0])
            continue
        fn = draw(st.sampled_from(fns))
        if k == 'packet':
            events.append(['packet', {'src': draw(st.sampled_from([1, 2, 4])), 'dst': 3, 'fn': fn, 'last': draw(st.booleans()),
                                      'data': draw(st.lists(st.integers(0, 255), max_size=4))}])
        else:
            events.append([k, fn])
    return {'events': events}


# ---------------------------------------------------------------- (d) tunnel
class _LiveSocket:
    """Blocking in-memory socket: recv blocks until the harness feeds bytes; close wakes it up."""

    def __init__(self):
        self.cv = threading.Condition()
        self.buf = bytearray()
        self.closed = False
        self.sent = bytearray()

    def connect(self, addr):
        pass

    def feed(self, data):
        with self.cv:
            self.buf += data
            self.cv.notify_all()

    def recv(self, n):
        with self.cv:
            while not self.buf and not self.closed:
                self.cv.wait(0.05)
            if self.closed and not self.buf:
                return b''
            data = bytes(self.buf[:n])
            del self.buf[:n]
            return data

    def send(self, data):
        with self.cv:
            self.sent += bytes(data)
        return len(data)

    def shutdown(self, how):
        pass

    def close(self):
        with self.cv:
            self.closed = True
            self.cv.notify_all()


class HarnessTimeout(Exception):
    pass


def _expand(up, twice):
    res = []
    for i, p in enumerate(up):
        res.append(p)
        if i in twice:
            res.append(p)
    return res


def run_tunnel(case):
    sent_twice = []
    import cflib.cpx.transports as T
    from cflib.crtp.crtpstack import CRTPPacket
    from cflib.crtp.tcpdriver import TcpDriver
    out = Outcome()
    up, down = case['up'], case['down']   # lists of [header, payload]
    out.nontrivial = any(not p[1] for p in up + down) or len(down) >= 2
    out.feat('tunnel-up-%d' % min(len(up), 3), 'tunnel-down-%d' % min(len(down), 3))
    if any(not p[1] for p in down):
        out.feat('tunnel-header-only-downlink')
    sock = _LiveSocket()
    orig = T.socket
    T.socket = _SockShim(sock)
    errors = []
    drv = TcpDriver()
    sink = io.StringIO()
    try:
        with contextlib.redirect_stdout(sink):
            drv.connect('tcp://h:5000', None, lambda m: errors.append(m))
            T.socket = orig
            # uplink
            for i_, (hdr, payload) in enumerate(up):
                pk = CRTPPacket()
                pk.set_header((hdr >> 4) & 0xF, hdr & 3)
                pk.data = bytes(payload)
                drv.send_packet(pk)
                if i_ in case.get('resend', []):
                    # the same packet object once more, as the Crazyflie's resend of an unanswered request does
                    drv.send_packet(pk)
                    sent_twice.append(i_)
            # wait until the CRTP queue exists (harness synchronisation only)
            t0 = time.time()
            while 3 not in drv.cpx._router._rxQueues:
                if time.time() - t0 > 20:
                    raise HarnessTimeout('CRTP queue never created')
                time.sleep(0.001)
            stream = bytearray()
            for hdr, payload in down:
                body = _ref_wire(1, 3, 3, False, [hdr] + list(payload))
                stream += struct.pack('H', len(body)) + body
            # feed in the drawn fragmentation
            pos = 0
            for c in sorted(set(case['cuts'])) + [len(stream)]:
                if c > pos:
                    sock.feed(bytes(stream[pos:c]))
                    pos = c
            got = []
            t0 = time.time()
            while len(got) < len(down):
                p = drv.receive_packet(0.05)
                if p is not None:
                    got.append(p)
                elif time.time() - t0 > 3 + 0.02 * len(down):
                    break
            extra = drv.receive_packet(0.05)
            if extra is not None:
                got.append(extra)
            drv.close()
    finally:
        T.socket = orig
        sock.close()
    if errors:
        out.fail('tunnel:link-error', errors[0][:300])
    # uplink wire check: first the SYSTEM packet the driver sends at connect, then one CPX/CRTP packet per send
    want = bytearray()
    body = _ref_wire(3, 1, 1, False, [0x21, 0x01])
    want += struct.pack('H', len(body)) + body
    for hdr, payload in _expand(up, sent_twice):
        h = ((hdr >> 4) & 0xF) << 4 | 0x0C | (hdr & 3)
        body = _ref_wire(3, 1, 3, False, [h] + list(payload))
        want += struct.pack('H', len(body)) + body
    if bytes(sock.sent) != bytes(want):
        out.fail('tunnel:uplink', 'socket saw %s expected %s' % (bytes(sock.sent).hex(), bytes(want).hex()))
    gd = [((p.port << 4) | p.channel, bytes(p.data)) for p in got]
    wd = [(hdr & 0xF3, bytes(payload)) for hdr, payload in down]
    if gd != wd:
        sig = 'tunnel:downlink'
        if len(gd) < len(wd) and any(not p[1] for p in down):
            sig = 'tunnel:downlink:header-only-lost'
        out.fail(sig, 'device sent %r, driver delivered %r' % ([(hex(h), d.hex()) for h, d in wd], [(hex(h), d.hex()) for h, d in gd]))
    return out


# ---------------------------------------------------------------- (e) tunnel through the serial (UART) driver
class _FakeSerialPort:
    """Stands in for serial.Serial: blocking read of exactly n bytes, write parsed by the peer model (sync + clear-to-send)."""

    def __init__(self, device=None, baudrate=None, timeout=None):
        self.cv = threading.Condition()
        self.buf = bytearray([0xFF, 0x00])      # the peer's sync frame
        self.closed = False
        self.frames = []                        # packet frames written by the host (payload bytes between size and checksum)
        self.bad = []

    def read(self, n=1):
        with self.cv:
            t0 = time.time()
            while len(self.buf) < n and not self.closed:
                self.cv.wait(0.05)
                if time.time() - t0 > 30:
                    raise IOError('fake serial: read timed out (harness)')
            if len(self.buf) < n:
                raise IOError('fake serial closed')
            data = bytes(self.buf[:n])
            del self.buf[:n]
            return data

    def write(self, data):
        data = bytes(bytearray(data))
        if data == b'\xff\x00':
            return len(data)                    # sync answer / clear-to-send from the host
        if len(data) < 4 or data[0] != 0xFF or data[1] != len(data) - 3:
            self.bad.append(data.hex())
            return len(data)
        x = 0
        for b in data[:-1]:
            x ^= b
        if x != data[-1]:
            self.bad.append('checksum ' + data.hex())
        self.frames.append(data[2:-1])
        self.feed(b'\xff\x00')                  # clear to send: the host may write its next frame
        return len(data)

    def feed(self, data):
        with self.cv:
            self.buf += data
            self.cv.notify_all()

    def close(self):
        with self.cv:
            self.closed = True
            self.cv.notify_all()


def run_serial_tunnel(case):
    sent_twice = []
    import types
    import cflib.cpx.transports as T
    import cflib.crtp.serialdriver as SD
    from cflib.crtp.crtpstack import CRTPPacket
    out = Outcome()
    up, down = case['up'], case['down']
    out.nontrivial = any(len(p[1]) in (0, 30) for p in up + down) or len(down) >= 2
    out.feat('serial-up-%d' % min(len(up), 3), 'serial-down-%d' % min(len(down), 3), 'serial-full-size' if any(len(p[1]) == 30 for p in up + down) else 'serial-short')
    ports = []

    def Serial(*a, **k):
        p_ = _FakeSerialPort(*a, **k)
        ports.append(p_)
        return p_
    fake_serial = types.SimpleNamespace(Serial=Serial)
    fake_ports = types.SimpleNamespace(comports=lambda: [types.SimpleNamespace(name='ttyFAKE0', device='/dev/ttyFAKE0')])
    saved = (getattr(T, 'serial', None), SD.found_serial, getattr(SD, 'list_ports', None))
    T.serial, SD.found_serial, SD.list_ports = fake_serial, True, fake_ports
    errors = []
    drv = SD.SerialDriver()
    got = []
    try:
        with contextlib.redirect_stdout(io.StringIO()):
            drv.connect('serial://ttyFAKE0', None, lambda m: errors.append(m))
            port = ports[0]
            for i_, (hdr, payload) in enumerate(up):
                pk = CRTPPacket()
                pk.set_header((hdr >> 4) & 0xF, hdr & 3)
                pk.data = bytes(payload)
                drv.send_packet(pk)
                if i_ in case.get('resend', []):
                    # the same packet object once more, as the Crazyflie's resend of an unanswered request does
                    drv.send_packet(pk)
                    sent_twice.append(i_)
            for hdr, payload in down:
                wire = _ref_wire(1, 3, 3, False, [hdr] + list(payload))
                frame = bytes([0xFF, len(wire)]) + wire
                x = 0
                for b in frame:
                    x ^= b
                port.feed(frame + bytes([x]))
            t0 = time.time()
            while len(got) < len(down):
                p = drv.receive_packet(0.05)
                if p is not None:
                    got.append(p)
                elif time.time() - t0 > 3 + 0.02 * len(down):
                    break
            extra = drv.receive_packet(0.05)
            if extra is not None:
                got.append(extra)
    finally:
        for p_ in ports:
            p_.close()
        try:
            th = getattr(drv, '_thread', None)
            if th is not None:
                th.sp = True
        except Exception:  # noqa
            pass
        T.serial, SD.found_serial, SD.list_ports = saved
        if saved[0] is None and hasattr(T, 'serial'):
            del T.serial
        if saved[2] is None and hasattr(SD, 'list_ports'):
            del SD.list_ports
    if not ports:
        out.fail('serial:no-port-opened', repr(errors)[:200])
        return out
    port = ports[0]
    if port.bad:
        out.fail('serial:frame-format', repr(port.bad[:3]))
    want = [_ref_wire(3, 1, 1, False, [0x21, 0x01]), _ref_wire(3, 1, 1, False, [0x20, 0x01])]
    for hdr, payload in _expand(up, sent_twice):
        h = ((hdr >> 4) & 0xF) << 4 | 0x0C | (hdr & 3)
        want.append(_ref_wire(3, 1, 3, False, [h] + list(payload)))
    if [bytes(f) for f in port.frames] != want:
        out.fail('serial:uplink', 'port saw %r expected %r' % ([f.hex() for f in port.frames], [w.hex() for w in want]))
    gd = [((p.port << 4) | p.channel, bytes(p.data)) for p in got]
    wd = [(hdr & 0xF3, bytes(payload)) for hdr, payload in down]
    if gd != wd:
        out.fail('serial:downlink', 'device sent %r, driver delivered %r' % ([(hex(h), d.hex()) for h, d in wd], [(hex(h), d.hex()) for h, d in gd]))
    return out


_crtp = st.tuples(st.integers(0, 255), st.one_of(st.lists(st.integers(0, 255), max_size=30), st.sampled_from([[], [0], [255] * 30])))


@st.composite
def tunnel_strategy(draw):
    up = [list(x) for x in draw(st.lists(_crtp, max_size=4))]
    down = [list(x) for x in draw(st.lists(_crtp, max_size=5))]
    n = sum(4 + 1 + len(p[1]) for p in down)
    cuts = draw(st.lists(st.integers(1, max(1, n)), max_size=6))
    resend = sorted(draw(st.sets(st.integers(0, max(0, len(up) - 1)), max_size=2))) if up else []
    return {'up': up, 'down': down, 'cuts': cuts, 'resend': resend}


def subchecks(tier):
    return [
        Sub('codec', run_codec, cases=codec_cases, distinct_by_construction=True),
        Sub('framing-exhaustive', run_framing_exhaustive, cases=framing_exhaustive_cases, distinct_by_construction=True),
        Sub('framing-large', run_framing_large, cases=framing_large_cases, distinct_by_construction=True),
        Sub('framing', run_framing, strategy=framing_strategy(), examples={'quick': 1500, 'thorough': 100000}),
        Sub('write', run_write, strategy=st.lists(_pk, min_size=1, max_size=4).map(lambda l: {'packets': l}),
            examples={'quick': 200, 'thorough': 5000}),
        Sub('write-concurrent-senders', run_write_concurrent, cases=write_concurrent_cases, distinct_by_construction=True),
        Sub('routing', run_routing, strategy=routing_strategy(), examples={'quick': 800, 'thorough': 50000}),
        Sub('tunnel', run_tunnel, strategy=tunnel_strategy(), examples={'quick': 60, 'thorough': 1500}),
        Sub('serial-tunnel', run_serial_tunnel, strategy=tunnel_strategy(), examples={'quick': 60, 'thorough': 1500}),
    ]
