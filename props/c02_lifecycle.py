"""C02: connection lifecycle well-formed; never hangs under any link fault / close time / interleaving; reconnectable."""
import os

from hypothesis import strategies as st

from props import c03_toc
from vlib import cfharness
from vlib.dsched import Deadlock, Horizon
from vlib.runner import Outcome, Sub
from vlib.simcf import Net, SimEnv

PROPERTY = 'C02'
LEVEL = 'exploration'
SHARDS = {'quick': 4, 'thorough': 16}
WATCHDOG = {'quick': 900, 'thorough': 6 * 3600}
RULE = ('A real Crazyflie (optionally wrapped in SyncCrazyflie on its own user thread) connects to a simulated device under the '
        'deterministic scheduler. Hypothesis draws the device (0-6 log / 0-6 param entries, 0-2 memories incl. 1-wire, protocol version), '
        'link kind, reply delays, a history of 1-3 attempts on ONE object, each with an optional link fault after the k-th exchanged '
        'packet of that session (reported from the driver thread or from inside send_packet on the sending thread) and an optional user '
        'close at a drawn virtual time, and the thread schedule; sub "fault-sweep" enumerates every k of fixed devices for both reporters, '
        'plain and Sync. After the history a healthy attempt must reach fully_connected with the right tables. Oracles: lifecycle automaton '
        'over the public callbacks, tables complete at `connected`, values complete at `fully_connected`, scheduler verdicts (deadlock, '
        'untimed wait beyond the virtual horizon, thread death), blocking Sync calls returned or raised, link None after a fault/close. '
        'Enumerated next to the random histories: fault after every k-th packet (k from 0 = before the first packet) for three reporters, every '
        'handshake reply delivered twice, the link failing at the very packet close_link() sends, a clean session followed by a failing one on '
        'the same object (plain and Sync), exactly the j-th reply slower than the retry period on a resending link, close_link() from inside '
        'a notification or the application\'s own port callback, and single forced preemptions. Error texts may be empty; the state must be '
        'DISCONNECTED whenever the link is gone at quiescence. '
        'Non-trivial = fault or close strictly inside the handshake, or after `connected` with the ping thread running.')
ASSUMPTIONS = ['one error report per fault', 'virtual time: computation instantaneous, timers exact; switch points at synchronisation operations and link I/O',
               'bounded time = 30 virtual seconds after the last injected event (longest timer involved is 1 s; ping period 0.1 s)']

EST = ['link_established', 'connected', 'fully_connected']


def _check_events(out, events, n_closes, n_err_reports, desc, race=''):
    """events: names of one attempt (from its connection_requested up to the next one)"""
    if not events or events[0] != 'connection_requested':
        out.fail('life:no-connection-requested', '%s: %r' % (desc, events))
        return
    if events.count('connection_requested') != 1:
        out.fail('life:connection-requested-count', '%s: %r' % (desc, events))
    est = [e for e in events if e in EST]
    if est != EST[:len(est)]:
        out.fail('life:establishment-order', '%s: %r' % (desc, events))
    first_disc = events.index('disconnected') if 'disconnected' in events else None
    if first_disc is not None and any(e in EST for e in events[first_disc:]):
        out.fail('life:establishment-after-disconnected' + race, '%s: %r' % (desc, events))
    if 'connection_failed' in events:
        i = events.index('connection_failed')
        if events.count('connection_failed') > 1:
            out.fail('life:connection-failed-twice', '%s: %r' % (desc, events))
        if any(e in EST for e in events[:i]) and False:
            pass
        if any(e in EST for e in events[i:]):
            out.fail('life:establishment-after-failed' + race, '%s: %r' % (desc, events))
        if 'link_established' in events[:i]:
            out.fail('life:failed-after-link-established', '%s: connection_failed after the first packet had arrived: %r' % (desc, events))
    lost = events.count('connection_lost')
    failed = events.count('connection_failed')
    dle = events.count('disconnected_link_error')
    if lost + failed + dle != n_err_reports:
        out.fail('life:error-report-accounting', '%s: %d link error report(s), but connection_lost=%d connection_failed=%d disconnected_link_error=%d: %r' % (
            desc, n_err_reports, lost, failed, dle, events))
    if events.count('disconnected') != n_closes + lost:
        out.fail('life:disconnected-count', '%s: %d close_link call(s), %d connection_lost, but %d disconnected: %r' % (
            desc, n_closes, lost, events.count('disconnected'), events))
    # each connection_lost is preceded by a disconnected of its own
    seen_d = 0
    used = 0
    for e in events:
        if e == 'disconnected':
            seen_d += 1
        if e == 'connection_lost':
            used += 1
            if seen_d < used:
                out.fail('life:connection-lost-before-disconnected', '%s: %r' % (desc, events))
                break


def _dispatcher_busy(s, env):
    link = env.world.links[-1] if env.world.links else None
    for lt in s.threads:
        if lt.name.startswith('_IncomingPacketHandler') and lt.state != 'DONE':
            return not (lt.state == 'BLOCKED' and (lt.idle or (link is not None and lt.waiting_on is link.wakeup)))
    return False


def run_life(case):
    from cflib.crazyflie.syncCrazyflie import SyncCrazyflie
    out = Outcome()
    spec = dict(cfharness.small_spec(case['nlog'], case['nparam'], version=case['version'],
                                     mems=[{'type': t, 'size': 112 if t == 1 else 64, 'fill': 255 if t == 1 else 0} for t in case['mems']]))
    if spec['version'] >= 4 and spec['param_toc']:
        spec['param_toc'][0]['extended'] = True
        spec['param_toc'][0]['persistent'] = True
    net = Net(needs_resending=case['needs_resending'], delays=case['delays'])
    inside = False
    after_connected = False
    with SimEnv(spec, net, case.get('schedule'), horizon=120.0) as env:
        s = env.s
        cf, rec = cfharness.make_cf(env)
        tables_ok = []
        if case.get('dup') is not None:
            # the k-th reply of the session arrives a second time a little later (answer to a retransmission that was already
            # on its way when the first answer came in)
            dcount = {'n': 0}

            def dupfilt(lnk, req, reps):
                res = []
                for r in reps:
                    j = dcount['n']
                    dcount['n'] += 1
                    res.append((r, None, None))
                    if j == case['dup']['k']:
                        res.append((r, 0.001 + case['dup']['extra'], None))
                return res
            env.world.reply_filter = dupfilt

        def on_connected(uri):
            lbl = 'attempt %d' % len([1 for e in rec.names() if e == 'connection_requested'])
            if cf.log.toc is None:
                out.fail('life:connected-without-log-table', lbl)
            else:
                c03_toc._compare(out, 'log', cf.log.toc, spec['log_toc'], lbl)
            c03_toc._compare(out, 'param', cf.param.toc, spec['param_toc'], lbl)
        cf.connected.add_callback(on_connected)
        if case.get('reread') and spec['param_toc']:
            # the application asks for some parameters itself as soon as the tables are there (the download of all values is running)
            def reread(uri):
                for i_ in case['reread']:
                    p_ = spec['param_toc'][i_ % len(spec['param_toc'])]
                    cf.param.request_param_update('%s.%s' % (p_['group'], p_['name']))
            cf.connected.add_callback(reread)

        def on_fully(uri):
            import struct as _st
            from vlib.simcf import PARAM_TYPES as _PT
            dev = env.device
            for i, p in enumerate(spec['param_toc']):
                have = cf.param.values.get(p['group'], {}).get(p['name'])
                want = str(_st.unpack(_PT[p['type']][1], dev.pack_param(i, dev.values[i]))[0])
                if have is None:
                    out.fail('life:fully-connected-without-values', '%s.%s has no value' % (p['group'], p['name']))
                    break
                if have != want:
                    out.fail('life:fully-connected-with-stale-values', '%s.%s is %r when fully_connected fires, the device holds %r' % (p['group'], p['name'], have, want))
                    break
        cf.fully_connected.add_callback(on_fully)
        race = {'error': False, 'close': False}
        attempts = list(case['attempts']) + [{'fault': None, 'close_at': None, 'sync': case['attempts'][-1]['sync'] if case['attempts'] else False, 'final': True}]
        scf = SyncCrazyflie('sim://1', cf=cf)
        aborted = False
        for ai, at in enumerate(attempts):
            # the device's parameter values differ from session to session
            for i_, p_ in enumerate(spec['param_toc']):
                env.device.values[i_] = (ai * 3 + i_ + 1) if p_['type'] not in (6, 7) else ai * 1.5 + i_
            if at.get('nodriver'):
                at = dict(at, fault=None, close_at=None, close_in_cb=None)
            elif not at.get('final') and at.get('close_at') is None and not at.get('fault') and not (at.get('close_in_cb') and not at.get('sync')):
                at = dict(at, close_at=3.0)
            elif not at.get('final') and at.get('close_at') is None:
                at = dict(at, close_at=25.0, late_close=True)   # the fault may never fire (k beyond the traffic): close eventually
            desc = 'spec(nlog=%d nparam=%d mems=%r v=%d resend=%r delays=%r) attempt %d of %r' % (
                case['nlog'], case['nparam'], case['mems'], case['version'], case['needs_resending'], case['delays'][:5], ai,
                [(a.get('nodriver') or a.get('fault'), a.get('close_at'), a.get('sync')) for a in attempts])
            ev0 = len(rec.events)
            session = len(env.world.links)
            env.world.fault_fired = False
            net.fault = dict(at['fault'], session=session) if at.get('fault') else None
            if net.fault and net.fault.get('empty_msg'):
                net.fault['msg'] = ''       # the text of a link error is free: a driver may report an error that has none
                out.feat('error-without-text')
            closes = [0]
            user = {'open': None, 'close': None, 'done': False}

            def _close(cf_):
                try:
                    cf_.close_link()
                except (Deadlock, Horizon):
                    raise
                except Exception as e:  # noqa
                    out.fail('life:close-link-raised', '%s: %r' % (desc, e))
            if case.get('notify') and spec['version'] >= 4 and spec['param_toc']:
                # value-updated notifications the firmware sends on its own (a parameter changed on the device side) during the handshake
                def notifier(times=sorted(case['notify']), dev=env.device, sess=session):
                    t_prev = 0.0
                    for t_, idx in times:
                        s.sleep(max(0.0, t_ - t_prev))
                        t_prev = t_
                        if len(env.world.links) == sess + 1 and not env.world.links[-1].closed:
                            i_ = idx % len(spec['param_toc'])
                            env.world.links[-1].deliver(dev.value_updated_packet(i_, dev.values[i_]), delay=0.0)
                s.spawn(notifier, 'notifier')
                out.feat('unsolicited-value-notifications')
            try:
                if at.get('nodriver'):
                    # an attempt for which there is no usable driver: no driver claims the URI, or the driver cannot open its device.
                    # Nothing was opened, so the application does not call close_link() afterwards.
                    bad_uri = 'bogus://1' if at['nodriver'] == 'unknown' else 'sim://absent1'
                    out.feat('attempt-without-usable-driver')
                    if at.get('sync'):
                        tmp_scf = SyncCrazyflie(bad_uri, cf=cf)

                        def user_thread():
                            try:
                                tmp_scf.open_link()
                                user['open'] = 'returned'
                            except Exception as e:  # noqa
                                user['open'] = 'raised %r' % (e,)
                            user['done'] = True
                        s.spawn(user_thread, 'syncuser')
                        s.sleep(10.0)
                        if not user['done']:
                            out.fail('life:sync-open_link-never-returns', '%s: no usable driver; events %r' % (desc, [e[1] for e in rec.events[ev0:]]))
                            aborted = True
                            break
                        if user['open'] == 'returned':
                            out.fail('life:sync-open-returned-unconnected', '%s: no usable driver, open_link() returned normally' % desc)
                        user['open'] = None
                    else:
                        cf.open_link(bad_uri)
                        s.sleep(5.0)
                elif at.get('sync'):
                    def user_thread():
                        try:
                            scf.open_link()
                            user['open'] = 'returned'
                        except Exception as e:  # noqa
                            user['open'] = 'raised %r' % (e,)
                        if at.get('close_at') is not None or at.get('final'):
                            s.sleep(at.get('close_at') or (20.0 if at.get('final') else 0))
                            if at.get('final'):
                                user['fully'] = 'fully_connected' in [e[1] for e in rec.events[ev0:]]
                            try:
                                if scf.is_link_open():
                                    closes[0] += 1
                                    if _dispatcher_busy(s, env):
                                        race['close'] = True
                                scf.close_link()
                                user['close'] = 'returned'
                            except Exception as e:  # noqa
                                user['close'] = 'raised %r' % (e,)
                        user['done'] = True
                    s.spawn(user_thread, 'syncuser')
                    s.sleep(30.0 + (at.get('close_at') or 0) + (25.0 if at.get('final') else 0))
                    if not user['done']:
                        which = 'open_link' if user['open'] is None else 'close_link'
                        out.fail('life:sync-%s-never-returns' % which, '%s: events %r; threads %r' % (desc, [e[1] for e in rec.events[ev0:]], s.describe()))
                        aborted = True
                        break
                else:
                    if at.get('close_in_cb'):
                        # the application closes the link from inside a notification (dispatcher thread: no race involved)
                        fired = []
                        seen_pk = [0]
                        port_cb = None
                        if at['close_in_cb'].startswith('port:'):
                            # ... or from inside its own packet callback on one of the library's ports, at the k-th packet it sees there
                            # (registered before the connection starts, so it runs before the library's callbacks for that packet)
                            _, cb_port, cb_k = at['close_in_cb'].split(':')

                            def closer(pk_):
                                seen_pk[0] += 1
                                if not fired and seen_pk[0] > int(cb_k):
                                    fired.append(1)
                                    closes[0] += 1
                                    _close(cf)
                            port_cb = int(cb_port)
                            cf.add_port_callback(port_cb, closer)
                            out.feat('closed-from-a-port-callback')
                        else:
                            ev_caller = getattr(cf, at['close_in_cb'])

                            def closer(*a_):
                                if not fired:
                                    fired.append(1)
                                    closes[0] += 1
                                    _close(cf)
                            ev_caller.add_callback(closer)
                    cf.open_link('sim://1')
                    if at.get('close_in_cb'):
                        s.sleep(5.0)
                        try:
                            if port_cb is not None:
                                cf.remove_port_callback(port_cb, closer)
                            else:
                                ev_caller.remove_callback(closer)
                        except ValueError:
                            pass
                        if not fired and at.get('close_at') is None and not at.get('fault'):
                            at = dict(at, close_at=0.0)      # the notification never came (e.g. no parameters): close now
                        elif fired and at.get('close_at') is None:
                            out.feat('closed-only-from-notification')
                    if at.get('close_at') is not None:
                        s.sleep(at['close_at'])
                        if not (at.get('late_close') and cf.link is None):
                            closes[0] += 1
                            if _dispatcher_busy(s, env):
                                race['close'] = True
                            _close(cf)
                    s.sleep(30.0)
                    if at.get('final'):
                        user['fully'] = 'fully_connected' in [e[1] for e in rec.events[ev0:]]
                        closes[0] += 1
                        if _dispatcher_busy(s, env):
                            race['close'] = True
                        _close(cf)
                        s.sleep(5.0)
            except Deadlock as e:
                out.fail('life:deadlock', '%s: %s' % (desc, repr(e)[:400]))
                aborted = True
                break
            except Horizon as e:
                out.fail('life:hang', '%s: %s' % (desc, repr(e)[:400]))
                aborted = True
                break
            evs = [e[1] for e in rec.events[ev0:]]
            nerr = 1 if env.world.fault_fired or at.get('nodriver') else 0
            if os.environ.get('C02_DEBUG'):
                print('DEBUG attempt', ai, 'nerr', nerr, 'ctx', env.world.fault_context, 'evs', evs)
            if nerr and env.world.fault_context.get('dispatcher_busy'):
                race['error'] = True
            env.world.fault_context = {}
            _check_events(out, evs, closes[0], nerr, desc, '')
            if s.deaths:
                out.fail('life:thread-died:' + s.deaths[0][1][:70], '%s: %s' % (desc, s.deaths[0][2][-500:]))
                aborted = True
                break
            if (nerr or closes[0]) and cf.link is not None:
                out.fail('life:link-not-released', '%s: link still set after %s' % (desc, 'fault' if nerr else 'close'))
            if (nerr or closes[0]) and not at.get('nodriver') and cf.link is None and getattr(cf.state, 'name', cf.state) not in ('DISCONNECTED', 0):
                out.fail('life:state-not-disconnected', '%s: state %r at quiescence after %s; events %r' % (desc, cf.state, 'fault' if nerr else 'close', evs))
            send_lock = getattr(cf, '_send_lock', None)
            if send_lock is not None and send_lock.locked():
                owner = send_lock.owner
                if owner is not None and (owner.state == 'DONE' or (owner.state == 'BLOCKED' and owner.wake_time is None)):
                    out.fail('life:send-lock-held', '%s: send lock held by %r at quiescence' % (desc, owner))
            if at.get('sync') and (user['close'] or '').startswith('raised'):
                out.fail('life:close-link-raised', '%s: %s' % (desc, user['close']))
            if at.get('sync') and user['open'] is not None:
                if user['open'] == 'returned' and 'connected' not in evs:
                    out.fail('life:sync-open-returned-unconnected', '%s: %r' % (desc, evs))
                if user['open'].startswith('raised') and 'connected' in evs and evs.index('connected') < (evs.index('disconnected') if 'disconnected' in evs else 10 ** 9) and False:
                    pass
            if at.get('final'):
                if case['nparam'] == 0:
                    user['fully'] = 'connected' in evs      # with an empty table "every parameter has a value" is never signalled
                if not user.get('fully'):
                    out.fail('life:cannot-reconnect', '%s: healthy attempt did not reach fully_connected: %r' % (desc, evs))
            else:
                k_hand = None
                if nerr:
                    # classify where the fault landed
                    if 'link_established' in evs and 'connected' not in evs[:evs.index('connection_lost') if 'connection_lost' in evs else len(evs)]:
                        inside = True
                    elif 'connected' in evs:
                        after_connected = True
                if at.get('close_at') is not None and 'link_established' in evs and 'fully_connected' not in evs:
                    inside = True
        # stale threads: every library thread is parked or finished; nothing died
    # The link going down (error report or close_link from another thread) while the dispatcher thread is in the middle of
    # dispatching a packet is a listed known finding: the late dispatch pollutes the state of the attempt and of later
    # attempts in many ways. Everything observed in such a case is folded into one signature per mechanism.
    preempted = s.preemptions
    if out.violations and (race['error'] or race['close']):
        tag = 'error-reported-while-dispatching' if race['error'] else 'closed-while-dispatching'
        msgs = '; '.join('%s: %s' % (sig, msg[:300]) for sig, msg in out.violations[:3])
        out.violations = [('life:anomaly-after-%s' % tag, msgs)]
    if race['error'] or race['close']:
        out.feat('race-link-down-while-dispatching')
    out.nontrivial = inside or after_connected
    if case.get('forced_preemption'):
        out.nontrivial = preempted > 0
        out.feat('forced-preemption-taken' if preempted else 'forced-preemption-beyond-session')
    if case.get('dup') is not None:
        hit = dcount['n'] > case['dup']['k']
        out.nontrivial = hit
        out.feat('duplicated-handshake-reply' if hit else 'duplicate-index-beyond-handshake')
    out.feat('fault-inside-handshake' if inside else 'no-inside', 'fault-after-connected' if after_connected else 'no-after-connected',
             'attempts-%d' % len(case['attempts']), 'sync' if any(a.get('sync') for a in case['attempts']) else 'plain',
             'resending' if case['needs_resending'] else 'reliable')
    for a in case['attempts']:
        if a.get('fault'):
            out.feat('reporter-' + a['fault']['reporter'])
    return out


_sched = st.fixed_dictionaries({'prefix': st.lists(st.integers(0, 3), max_size=40), 'seed': st.integers(0, 10 ** 6),
                                'rate': st.sampled_from([0.0, 0.0, 0.05, 0.2, 0.5])})
_attempt = st.fixed_dictionaries({
    'fault': st.one_of(st.none(), st.fixed_dictionaries({'k': st.one_of(st.integers(0, 90), st.sampled_from([0, 0, 1])), 'reporter': st.sampled_from(['driver', 'sender', 'driver-quiet']),
                                                          'empty_msg': st.sampled_from([False, False, False, True])})),
    'close_at': st.one_of(st.none(), st.none(), st.sampled_from([0.0, 0.0005, 0.002, 0.005, 0.01, 0.02, 0.05, 0.3, 2.0])),
    'sync': st.booleans(),
    'nodriver': st.sampled_from([None, None, None, None, None, None, None, 'unknown', 'absent']),
    'close_in_cb': st.one_of(st.sampled_from([None, None, None, None, 'link_established', 'connected', 'fully_connected']),
                             st.builds(lambda p_, k_: 'port:%d:%d' % (p_, k_), st.sampled_from([2, 5, 4, 13]), st.integers(0, 12)))})


@st.composite
def life_case(draw):
    return {'nlog': draw(st.integers(0, 6)), 'nparam': draw(st.integers(0, 6)), 'mems': draw(st.lists(st.sampled_from([0, 1, 0x30]), max_size=2)),
            'version': draw(st.sampled_from([10, 10, 4, 3, -1])), 'needs_resending': draw(st.booleans()),
            'delays': draw(st.lists(st.sampled_from([0.0, 0.0, 0.001, 0.001, 0.003, 0.01, 0.21]), min_size=1, max_size=5)),
            'attempts': draw(st.lists(_attempt, min_size=1, max_size=3)), 'schedule': draw(_sched),
            'notify': draw(st.one_of(st.just([]), st.just([]), st.lists(st.tuples(st.sampled_from([0.004, 0.008, 0.012, 0.02, 0.03, 0.04, 0.05, 0.07, 0.1]), st.integers(0, 6)),
                                                                         max_size=3).map(lambda l: [list(x) for x in l]))),
            'reread': draw(st.one_of(st.just([]), st.just([]), st.lists(st.integers(0, 5), max_size=3)))}


def sweep_cases(tier):
    kmax = 70
    for (nlog, nparam, mems) in ((2, 3, [1]), (0, 0, [])):
        for rep in ('driver', 'sender', 'driver-quiet'):
            for sync in (False, True):
                step = 1 if tier == 'thorough' else 2
                for k in range(0, kmax, step):
                    yield {'nlog': nlog, 'nparam': nparam, 'mems': mems, 'version': 10, 'needs_resending': False, 'delays': [0.001],
                           'attempts': [{'fault': {'k': k, 'reporter': rep, 'empty_msg': sync and k % 3 == 0}, 'close_at': None, 'sync': sync}],
                           'schedule': {'prefix': [], 'seed': k, 'rate': 0.0 if k % 2 else 0.2}}
                    if rep == 'sender' and not sync:
                        # no latency at all: the whole session happens in one instant, the threads (dispatcher, parameter updater,
                        # latency ping, the caller) interleave as the schedule says; the error comes from whichever thread sends
                        for seed in (1, 2):
                            yield {'nlog': nlog, 'nparam': nparam, 'mems': mems, 'version': 10, 'needs_resending': False, 'delays': [0.0],
                                   'attempts': [{'fault': {'k': k, 'reporter': rep}, 'close_at': None, 'sync': sync}],
                                   'schedule': {'prefix': [], 'seed': 100 * seed + k, 'rate': 0.5}}


def dup_sweep_cases(tier):
    """healthy connection; every reply of the handshake in turn is delivered twice, the copy 0.5 .. 3.5 ms after the original"""
    for (nlog, nparam, mems, version) in ((2, 3, [1], 10), (1, 2, [], 3), (0, 0, [], 10)):
        for k in range(0, 40):
            for extra in (0.0005, 0.0015, 0.0035):
                yield {'nlog': nlog, 'nparam': nparam, 'mems': mems, 'version': version, 'needs_resending': True, 'delays': [0.001],
                       'attempts': [], 'dup': {'k': k, 'extra': extra}, 'schedule': {'prefix': [], 'seed': k, 'rate': 0.0}}


def history_sweep_cases(tier):
    """(a) one object, a clean session first, then a session that fails after the k-th packet - plain and through SyncCrazyflie;
    (b) a link that needs resending where exactly the j-th reply of the handshake takes longer than the retry period (it is then
    asked for again and answered twice), for every j and several memory sets"""
    step = 2 if tier == 'quick' else 1
    for sync in (True, False):
        for rep in ('driver-quiet', 'sender'):
            for k in range(0, 44, step):
                yield {'nlog': 2, 'nparam': 3, 'mems': [1], 'version': 10, 'needs_resending': False, 'delays': [0.001],
                       'attempts': [{'fault': None, 'close_at': 0.5, 'sync': sync}, {'fault': {'k': k, 'reporter': rep}, 'close_at': None, 'sync': sync}],
                       'schedule': {'prefix': [], 'seed': k, 'rate': 0.0}}
    for cb in ('link_established', 'connected', 'fully_connected'):
        for (nlog, nparam, mems) in ((2, 3, [1]), (0, 0, []), (1, 1, [])):
            for delay in (0.001, 0.0):
                yield {'nlog': nlog, 'nparam': nparam, 'mems': mems, 'version': 10, 'needs_resending': False, 'delays': [delay],
                       'attempts': [{'fault': None, 'close_at': None, 'sync': False, 'close_in_cb': cb}], 'schedule': {'prefix': [], 'seed': 1, 'rate': 0.0}}
    for cb_port in (2, 5, 4, 13):
        for k in range(0, 14):
            yield {'nlog': 2, 'nparam': 3, 'mems': [1], 'version': 10, 'needs_resending': False, 'delays': [0.001],
                   'attempts': [{'fault': None, 'close_at': None, 'sync': False, 'close_in_cb': 'port:%d:%d' % (cb_port, k)}],
                   'schedule': {'prefix': [], 'seed': k, 'rate': 0.0}}
    for mems in ([0], [], [0, 0x30], [1, 0]):
        for j in range(0, 60, step):
            yield {'nlog': 2, 'nparam': 3, 'mems': mems, 'version': 10, 'needs_resending': True, 'delays': [0.001] * j + [0.21] + [0.001] * (90 - j),
                   'attempts': [{'fault': None, 'close_at': 3.0, 'sync': j % 2 == 0}], 'schedule': {'prefix': [], 'seed': j, 'rate': 0.0}}


def extra_value_cases(tier):
    """healthy connections during which value packets arrive that are not the answers of the initial download: notifications sent by the
    firmware on its own at every phase of the handshake, and reads the application issues from its connected callback"""
    for (nlog, nparam, version, resend) in ((2, 5, 10, False), (0, 3, 10, True), (1, 4, 4, False)):
        for k in range(0, 40 if tier == 'quick' else 120):
            t_ = 0.002 * k + 0.0005
            yield {'nlog': nlog, 'nparam': nparam, 'mems': [], 'version': version, 'needs_resending': resend, 'delays': [0.001],
                   'attempts': [], 'notify': [[t_, k], [t_ + 0.004, k + 1]], 'schedule': {'prefix': [], 'seed': k, 'rate': 0.0}}
        for rr in ([0], [1, 1], [0, 1, 2], [nparam - 1]):
            for sync in (False, True):
                yield {'nlog': nlog, 'nparam': nparam, 'mems': [], 'version': version, 'needs_resending': resend, 'delays': [0.001],
                       'attempts': [{'fault': None, 'close_at': 1.0, 'sync': sync}], 'reread': rr, 'schedule': {'prefix': [], 'seed': 1, 'rate': 0.0}}


def nodriver_cases(tier):
    """histories with attempts for which there is no usable driver (unknown scheme / the driver cannot open its device), before, between
    and after healthy and failing attempts, plain and through SyncCrazyflie"""
    ok = {'fault': None, 'close_at': 0.5}
    bad = {'fault': {'k': 9, 'reporter': 'driver-quiet'}, 'close_at': None}
    for kind in ('unknown', 'absent'):
        nd = {'nodriver': kind}
        for hist in ([nd], [nd, nd], [ok, nd], [nd, ok, nd], [bad, nd], [nd, bad]):
            for sync in (False, True):
                yield {'nlog': 2, 'nparam': 3, 'mems': [1], 'version': 10, 'needs_resending': False, 'delays': [0.001],
                       'attempts': [dict(a, sync=sync) for a in hist], 'schedule': {'prefix': [], 'seed': 1, 'rate': 0.0}}


def close_fault_cases(tier):
    """the link fails at the very packet close_link() sends (the zero setpoint), reported from inside that send: the error is then
    processed by a thread of its own while close_link() carries on - at every phase of the session, under several schedules"""
    for (nlog, nparam, mems) in ((2, 3, [1]), (0, 0, [])):
        for close_at in (0.0, 0.0005, 0.002, 0.005, 0.01, 0.02, 0.05, 0.3, 2.0):
            for sync in (False, True):
                for seed, rate in ((1, 0.0), (2, 0.5), (3, 0.5), (4, 0.9), (5, 0.9)) if tier == 'quick' else [(i, r) for i in range(1, 9) for r in (0.0, 0.3, 0.5, 0.9)]:
                    yield {'nlog': nlog, 'nparam': nparam, 'mems': mems, 'version': 10, 'needs_resending': False, 'delays': [0.001],
                           'attempts': [{'fault': {'k': 0, 'reporter': 'sender', 'on_port': 3}, 'close_at': close_at, 'sync': sync}],
                           'schedule': {'prefix': [], 'seed': seed, 'rate': rate}}


def single_preemption_cases(tier):
    """healthy connections with replies without latency; the k-th scheduling decision of the session goes to another thread"""
    for (nlog, nparam, mems, version) in ((2, 3, [1], 10), (1, 1, [], 3)):
        for k in range(0, 120 if tier == 'quick' else 400):
            for other in (1, 2):
                yield {'nlog': nlog, 'nparam': nparam, 'mems': mems, 'version': version, 'needs_resending': False, 'delays': [0.0],
                       'attempts': [{'fault': None, 'close_at': 0.5, 'sync': k % 2 == 1}], 'schedule': {'prefix': [0] * k + [other], 'seed': 0, 'rate': 0.0},
                       'forced_preemption': True}


def subchecks(tier):
    return [
        Sub('histories', run_life, strategy=life_case(), examples={'quick': 160, 'thorough': 8000}),
        Sub('fault-sweep', run_life, cases=sweep_cases, distinct_by_construction=True),
        Sub('duplicate-sweep', run_life, cases=dup_sweep_cases, distinct_by_construction=True),
        Sub('close-fault-sweep', run_life, cases=close_fault_cases, distinct_by_construction=True),
        Sub('history-sweep', run_life, cases=history_sweep_cases, distinct_by_construction=True),
        Sub('extra-values', run_life, cases=extra_value_cases, distinct_by_construction=True),
        Sub('no-driver-histories', run_life, cases=nodriver_cases, distinct_by_construction=True),
        Sub('single-preemptions', run_life, cases=single_preemption_cases, distinct_by_construction=True),
    ]
