"""C20: link URIs select the right driver and parse to the right radio settings."""
import contextlib
import io
import time

from hypothesis import strategies as st

from vlib.fakeradio import FakeDongle, RadioEnv
from vlib.runner import Outcome, Sub

PROPERTY = 'C20'
LEVEL = 'exploration'
SHARDS = {'quick': 4, 'thorough': 16}
RULE = ('Hypothesis draws radio URIs from the grammar (dongle index or serial, channel 0..125 or omitted, rate or omitted, address of 1..10 '
        'hex digits in either case or omitted, optional ?rate_limit=), scan worlds, other-scheme URIs (usb, serial, tcp, udp, prrt, unknown, '
        'malformed). parse: RadioDriver.parse_uri vs an independent reference. connect: the real RadioDriver/RadioManager/Crazyradio stack '
        'runs over a fake USB dongle and every transmission must use the reference channel/rate/address bytes. scan: scan_interface over a '
        'world of answering (channel, rate, address) triples; every reported URI must parse back to a triple that answered and all of them '
        'must be reported. claim: each URI is offered to every class in CLASSES (with and without the serial driver). open_link: a real '
        'Crazyflie must answer unknown/malformed URIs with exactly one connection_failed. Non-trivial = omitted trailing fields, shortened '
        'or lower-case address, serial dongle id, query option, or a non-radio/malformed URI.')
ASSUMPTIONS = ['unknown rate tokens (silently defaulted by the parser) are not generated', 'pyserial and prrt are absent in this image: '
               '"Could not identify device"/"PRRT is missing" count as claiming the scheme',
               'dongle firmware model: SET_RADIO_CHANNEL/ADDRESS/DATA_RATE vendor requests take effect for following transmissions']

RATES = {'250K': 0, '1M': 1, '2M': 2}
SERIALS = ['FAKE000001', 'E7E7E7E7AB', 'ABCDEF0123', '0123456789']     # the last one: a serial number made of decimal digits only


def _ref_parse(c):
    devid = c['dongle'] if isinstance(c['dongle'], int) else SERIALS.index(c['dongle'].upper())
    channel = 2 if c['channel'] is None else c['channel']
    rate = 2 if c['rate'] is None else RATES[c['rate']]
    if c['address'] is None:
        addr = (0xe7,) * 5
    else:
        v = int(c['address'], 16)
        addr = tuple((v >> (8 * (4 - i))) & 0xff for i in range(5))
    return devid, channel, rate, addr, c['rate_limit']


def _uri(c):
    s = 'radio://%s' % c['dongle']
    parts = []
    if c['channel'] is not None:
        parts.append(str(c['channel']))
        if c['rate'] is not None:
            parts.append(c['rate'])
            if c['address'] is not None:
                parts.append(c['address'])
    if parts:
        s += '/' + '/'.join(parts)
    if c.get('slash'):
        s += '/'        # a trailing slash after the last field given (the parser strips it: 'radio://0/', 'radio://0/80/2M/')
    if c['rate_limit'] is not None:
        s += '?rate_limit=%d' % c['rate_limit']
    return s


@st.composite
def radio_uri(draw, int_dongle_only=False):
    dongle = draw(st.one_of(st.integers(0, 2), st.sampled_from([0, 0, 1]))) if int_dongle_only or draw(st.booleans()) else \
        draw(st.sampled_from(SERIALS + [s.lower() for s in SERIALS[1:]]))
    depth = draw(st.sampled_from([0, 1, 2, 3, 3, 3]))
    c = {'dongle': dongle, 'channel': None, 'rate': None, 'address': None, 'rate_limit': None}
    if depth >= 1:
        c['channel'] = draw(st.one_of(st.integers(0, 125), st.sampled_from([0, 2, 80, 125])))
    if depth >= 2:
        c['rate'] = draw(st.sampled_from(['250K', '1M', '2M']))
    if depth >= 3:
        n = draw(st.sampled_from([10, 10, 10, 1, 2, 3, 4, 5, 6, 7, 8, 9]))
        digits = draw(st.text(alphabet='0123456789abcdefABCDEF', min_size=n, max_size=n))
        c['address'] = draw(st.sampled_from([digits, digits.upper(), digits.lower(), 'E7E7E7E7E7', 'e7e7e7e701', '1', '0']))
    if draw(st.sampled_from([False, False, True])):
        c['rate_limit'] = draw(st.integers(1, 2000))
    c['slash'] = draw(st.sampled_from([False, False, False, True]))
    return c


@st.composite
def connect_case(draw):
    c = draw(radio_uri())
    c['scan_mid'] = draw(st.sampled_from([None, None, None, 0xE7E7E7E7E7, 0x0102030405]))
    return c


def _nontrivial(c):
    return c['channel'] is None or c['rate'] is None or c['address'] is None or len(c['address']) < 10 or \
        c['address'] != c['address'].upper() or not isinstance(c['dongle'], int) or c['rate_limit'] is not None or bool(c.get('slash'))


def _dongles():
    return [FakeDongle(serial=s, answer=lambda d, f: b'\x01') for s in SERIALS]


def run_parse(case):
    from cflib.crtp.radiodriver import RadioDriver
    out = Outcome()
    c = case
    out.nontrivial = _nontrivial(c)
    out.feat('depth-%d' % sum(1 for k in ('channel', 'rate', 'address') if c[k] is not None),
             'dongle-int' if isinstance(c['dongle'], int) else 'dongle-serial',
             'short-address' if c['address'] is not None and len(c['address']) < 10 else 'full-or-no-address')
    uri = _uri(c)
    want = _ref_parse(c)
    with RadioEnv(_dongles):
        try:
            got = RadioDriver.parse_uri(uri)
        except Exception as e:  # noqa
            depth = sum(1 for k in ('channel', 'rate', 'address') if c[k] is not None)
            out.fail('parse:raises:depth%d' % depth, '%s -> %r' % (uri, e))
            return out
    got_n = (got[0], got[1], got[2], tuple(got[3]), got[4])
    if got_n != want:
        field = [i for i in range(5) if got_n[i] != want[i]][0]
        out.fail('parse:field%d' % field, '%s parsed to %r, expected %r' % (uri, got_n, want))
    return out


def _wait_radio_closed(devid):
    import cflib.crtp.radiodriver as rd
    t0 = time.time()
    while True:
        radios = rd.RadioManager._radios
        if devid >= len(radios) or radios[devid] is None or radios[devid]._radio is None:
            return
        if time.time() - t0 > 20:
            raise RuntimeError('shared radio did not close')
        time.sleep(0.0005)


def run_connect(case):
    from cflib.crtp.radiodriver import RadioDriver
    out = Outcome()
    c = case
    out.nontrivial = _nontrivial(c)
    out.feat('connect')
    uri = _uri(c)
    want = _ref_parse(c)
    dongles = _dongles()
    with RadioEnv(lambda: dongles):
        drv = RadioDriver()
        errors = []
        try:
            # a wrong dongle index is reported here and not handed to the radio manager (which would allocate a slot table up to it)
            pd = RadioDriver.parse_uri(uri)[0]
            if pd != want[0]:
                out.fail('connect:wrong-dongle', '%s names dongle %r, parsed as %r' % (uri, want[0], pd))
                return out
            drv.connect(uri, None, lambda m: errors.append(m))
        except Exception as e:  # noqa
            out.fail('connect:raises', '%s -> %r' % (uri, e))
            return out
        d = dongles[want[0]]
        t0 = time.time()
        while len(d.tx) < 14:
            if time.time() - t0 > 20:
                out.fail('connect:no-traffic', '%s: only %d transmissions' % (uri, len(d.tx)))
                break
            time.sleep(0.0005)
        marked = None
        if case.get('scan_mid') is not None and want[0] == 0 and (want[4] is None or want[4] >= 100) and not out.violations:
            # a second driver instance scans on the same dongle while the link is up (what a client that rescans while
            # connected does); the link's own packets, recognisable by their payload, must keep the URI's settings
            from cflib.crtp.crtpstack import CRTPPacket
            out.feat('connect-scan-while-connected')

            def mark(i):
                pk = CRTPPacket()
                pk.set_header(3, 1)
                pk.data = bytes([0xA5, 0x5A, i])
                drv.send_packet(pk)

            def wait_marks(n):
                t1 = time.time()
                while sum(1 for x in list(d.tx) if x[3][1:3] == b'\xa5\x5a') < n:
                    if time.time() - t1 > 20:
                        out.fail('connect:no-traffic', '%s: marked packets not transmitted' % uri)
                        return
                    time.sleep(0.0005)
            mark(0)
            wait_marks(1)
            with contextlib.redirect_stdout(io.StringIO()):
                RadioDriver().scan_interface(case['scan_mid'])
            for i in range(1, 4):
                mark(i)
            wait_marks(4)
            marked = [x for x in list(d.tx) if x[3][1:3] == b'\xa5\x5a']
        drv.close()
        _wait_radio_closed(want[0])
    if marked is not None:
        badm = [(ch, dr, ad) for ch, dr, ad, fr in marked if (ch, dr, tuple(ad or ())) != (want[1], want[2], want[3])]
        if badm:
            out.fail('connect:settings-after-scan', '%s: packet of the link transmitted with (channel, rate, address) %r after a scan on the same dongle, expected %r' % (uri, badm[0], want[1:4]))
        return out
    if drv.rate_limit != want[4]:
        out.fail('connect:rate-limit', '%s -> rate_limit %r' % (uri, drv.rate_limit))
    for k, other in enumerate(dongles):
        if k != want[0] and other.tx:
            out.fail('connect:wrong-dongle', '%s transmitted on dongle %d' % (uri, k))
    bad = [(ch, dr, ad) for ch, dr, ad, fr in d.tx if (ch, dr, tuple(ad or ())) != (want[1], want[2], want[3])]
    if bad:
        out.fail('connect:settings', '%s transmitted with (channel, rate, address) %r, expected %r' % (uri, bad[0], want[1:4]))
    return out


@st.composite
def scan_case(draw):
    address = draw(st.sampled_from([None, None, 0xE7E7E7E7E7, 0xE7E7E7E701, 0x1, 0x0102030405, 0xABCDEF, 0xFFFFFFFFFF]))
    eff = 0xE7E7E7E7E7 if address is None else address
    n = draw(st.integers(0, 5))
    world = []
    for _ in range(n):
        world.append([draw(st.one_of(st.integers(0, 125), st.sampled_from([0, 125, 80]))), draw(st.integers(0, 2)),
                      draw(st.sampled_from([eff, eff, eff, 0xE7E7E7E7E7, 0x0504030201]))])
    return {'address': address, 'world': world}


def run_scan(case):
    from cflib.crtp.radiodriver import RadioDriver
    out = Outcome()
    address = case['address']
    eff = 0xE7E7E7E7E7 if address is None else address
    world = set((ch, dr, tuple((a >> (8 * (4 - i))) & 0xff for i in range(5))) for ch, dr, a in case['world'])
    eff_t = tuple((eff >> (8 * (4 - i))) & 0xff for i in range(5))
    visible = set(w for w in world if w[2] == eff_t)
    out.nontrivial = len(visible) >= 1 and address not in (None, 0xE7E7E7E7E7)
    out.feat('scan-visible-%d' % min(len(visible), 3), 'scan-default-address' if address in (None, 0xE7E7E7E7E7) else 'scan-custom-address')

    def answer(d, frame):
        return b'\x01' if (d.channel, d.datarate, tuple(d.address or ())) in world else b'\x00'
    dongles = [FakeDongle(serial=SERIALS[0], answer=answer)]
    with RadioEnv(lambda: dongles), contextlib.redirect_stdout(io.StringIO()):
        drv = RadioDriver()
        try:
            found = drv.scan_interface(address)
        except Exception as e:  # noqa
            out.fail('scan:raises', '%r' % e)
            return out
        _wait_radio_closed(0)
        got = set()
        for item in found:
            uri = item[0]
            try:
                devid, ch, dr, ad, rl = RadioDriver.parse_uri(uri)
            except Exception as e:  # noqa
                out.fail('scan:unparsable', '%s: %r' % (uri, e))
                continue
            got.add((ch, dr, tuple(ad)))
    if got != visible:
        wrong = got - visible
        sig = 'scan:wrong-settings' if wrong else 'scan:missed'
        out.fail(sig, 'address %r world %r: scan reported %r, expected %r' % (address, sorted(world), sorted(got), sorted(visible)))
    return out


# ---------------------------------------------------------------- scheme claims + open_link
_host = st.sampled_from(['127.0.0.1', '192.168.4.1', 'localhost', 'aideck.local'])
_other = st.one_of(
    st.integers(0, 3).map(lambda n: ('usb', 'usb://%d' % n)),
    st.sampled_from(['/dev/ttyAMA0', 'ttyS0', 'COM3', 'cf-1.2']).map(lambda s: ('serial', 'serial://' + s)),
    st.tuples(_host, st.integers(1, 65535)).map(lambda t: ('tcp', 'tcp://%s:%d' % t)),
    st.tuples(_host, st.integers(1, 65535)).map(lambda t: ('udp', 'udp://%s:%d' % t)),
    st.tuples(st.integers(1, 254), st.integers(1, 65535)).map(lambda t: ('prrt', 'prrt://10.0.0.%d:%d' % t)),
    st.sampled_from(['prrt://nonsense', 'serial://', 'serial://bad name!', 'tcp://', 'udp://']).map(lambda s: (s.split(':')[0], s)),
    st.sampled_from(['debug://0/0', 'bluetooth://aa:bb', 'radio:/0/80', 'RADIO://0/80/2M', 'http://x', '', 'radio', '://', 'usb:/0',
                     'usb://', 'usb://x', 'usb://0/1', ' radio://0/80/2M', 'cpx://1', 'file:///etc/passwd']).map(lambda s: (None, s)),
)


@st.composite
def claim_case(draw):
    if draw(st.booleans()):
        c = draw(radio_uri(int_dongle_only=True))
        scheme, uri = 'radio', _uri(c)
    else:
        scheme, uri = draw(_other)
    return {'scheme': scheme, 'uri': uri, 'serial_driver': draw(st.booleans())}


class _NoSock:
    AF_INET, SOCK_STREAM, SOCK_DGRAM, SHUT_WR = 2, 1, 2, 1

    class error(OSError):
        pass

    def socket(self, *a):
        raise OSError('no network in the harness')


@contextlib.contextmanager
def _no_hardware():
    import cflib.cpx.transports as T
    import cflib.crtp.udpdriver as U
    import cflib.drivers.cfusb as cfusb
    o1, o2, o3 = T.socket, U.socket, cfusb._find_devices
    T.socket = _NoSock()
    U.socket = _NoSock()
    cfusb._find_devices = lambda: []
    try:
        with RadioEnv(lambda: []), contextlib.redirect_stdout(io.StringIO()):
            yield
    finally:
        T.socket, U.socket, cfusb._find_devices = o1, o2, o3


def _classes(serial_driver):
    import cflib.crtp as crtp
    saved = list(crtp.CLASSES)
    del crtp.CLASSES[:]
    crtp.init_drivers(enable_serial_driver=serial_driver)
    lst = list(crtp.CLASSES)
    crtp.CLASSES[:] = saved
    return lst


def run_claim(case):
    import cflib.crtp as crtp
    from cflib.crtp.exceptions import WrongUriType
    out = Outcome()
    scheme, uri = case['scheme'], case['uri']
    out.nontrivial = scheme != 'radio'
    out.feat('scheme-%s' % scheme, 'with-serial-driver' if case['serial_driver'] else 'without-serial-driver')
    classes = _classes(case['serial_driver'])
    claims = []
    with _no_hardware():
        for cls in classes:
            try:
                inst = cls()
                inst.connect(uri, None, lambda m: None)
                claims.append(cls.__name__)
                try:
                    inst.close()
                except Exception:  # noqa
                    pass
            except WrongUriType:
                pass
            except BaseException as e:  # noqa  (a claimed scheme without hardware raises something else)
                claims.append(cls.__name__)
    expected = {'radio': ['RadioDriver'], 'usb': ['UsbDriver'], 'tcp': ['TcpDriver'], 'udp': ['UdpDriver'], 'prrt': ['PrrtDriver'],
                'serial': ['SerialDriver'] if case['serial_driver'] else [], None: []}[scheme]
    if claims != expected:
        out.fail('claim:%s' % scheme, '%r claimed by %r, expected %r (classes %r)' % (uri, claims, expected, [c.__name__ for c in classes]))
    # get_link_driver for unknown schemes returns None without raising
    if scheme is None:
        saved = list(crtp.CLASSES)
        crtp.CLASSES[:] = classes
        try:
            with _no_hardware():
                r = crtp.get_link_driver(uri)
            if r is not None:
                out.fail('claim:get_link_driver', '%r -> %r' % (uri, r))
        except Exception as e:  # noqa
            out.fail('claim:get_link_driver-raises', '%r -> %r' % (uri, e))
        finally:
            crtp.CLASSES[:] = saved
    return out


_CF = {}


def _cf():
    if 'cf' not in _CF:
        from cflib.crazyflie import Crazyflie
        _CF['cf'] = Crazyflie()
    return _CF['cf']


@st.composite
def openlink_case(draw):
    kind = draw(st.sampled_from(['unknown', 'malformed-radio', 'no-hardware']))
    if kind == 'unknown':
        uri = draw(st.sampled_from(['debug://0/0', 'bluetooth://aa:bb', 'radio:/0/80', 'RADIO://0/80/2M', 'http://x', '', 'radio', '://',
                                    'usb:/0', 'usb://x', 'cpx://1', 'serial://dev'])) + draw(st.sampled_from(['', '', '/1']))
    elif kind == 'malformed-radio':
        uri = draw(st.sampled_from(['radio://0/abc/2M', 'radio://0/80/2M/XYZ', 'radio://0/80/2M/E7E7E7E7E7E7', 'radio://NOSUCHSER/80/2M',
                                    'radio://0/80/2M/E7E7E7E7E7?rate_limit=fast', 'radio://0/8 0/2M', 'radio://0/-/1M', 'radio://0/80/2M/0x12',
                                    'radio://7/80/2M', 'radio://0/1.5/2M']))
    else:
        uri = draw(st.one_of(radio_uri(int_dongle_only=True).map(_uri), st.sampled_from(['usb://0', 'tcp://127.0.0.1:5000', 'udp://127.0.0.1:1',
                                                                                         'prrt://10.0.0.1:5000'])))
    return {'kind': kind, 'uri': uri}


def run_openlink(case):
    import cflib.crtp as crtp
    out = Outcome(nontrivial=True)
    out.feat('openlink-' + case['kind'])
    cf = _cf()
    events = []
    names = ['connection_requested', 'connection_failed', 'link_established', 'connected', 'fully_connected', 'disconnected', 'connection_lost']
    cbs = {}
    for n in names:
        cbs[n] = (lambda *a, n=n: events.append(n))
        getattr(cf, n).add_callback(cbs[n])
    saved = list(crtp.CLASSES)
    crtp.CLASSES[:] = _classes(False)
    try:
        with _no_hardware():
            try:
                cf.open_link(case['uri'])
            except BaseException as e:  # noqa
                out.fail('openlink:escaping-exception:' + case['kind'], '%r -> %r' % (case['uri'], e))
    finally:
        crtp.CLASSES[:] = saved
        for n in names:
            getattr(cf, n).remove_callback(cbs[n])
    if events != ['connection_requested', 'connection_failed']:
        out.fail('openlink:events:' + case['kind'], '%r -> %r' % (case['uri'], events))
    if cf.link is not None:
        out.fail('openlink:link-left', '%r leaves link %r' % (case['uri'], cf.link))
        cf.link = None
    return out


_MALFORMED = ['radio://0/abc/2M', 'radio://0/80/2M/XYZ', 'radio://0/80/2M/E7E7E7E7E7E7', 'radio://0/80/2M/E7E7E7E7E7E7E7', 'radio://0/80/2M/0102030405060708',
              'radio://0/80/2M/E7E7E7E7E7E', 'radio://NOSUCHSER/80/2M', 'radio://0/80/2M/E7E7E7E7E7?rate_limit=fast', 'radio://0/8 0/2M', 'radio://0/-/1M',
              'radio://0/80/2M/0x12', 'radio://7/80/2M', 'radio://0/1.5/2M', 'radio://0/80/1M/E7E7E7E7E7E701?rate_limit=100', 'radio://0//2M', 'radio://0/80/2M/GGGGGGGGGG']


def malformed_cases(tier):
    for u in _MALFORMED:
        yield {'kind': 'malformed-radio', 'uri': u}


def run_malformed_with_dongle(case):
    """a Crazyradio IS attached: a malformed radio URI must still end in connection_failed from open_link, with no driver left on the
    Crazyflie object and nothing transmitted or configured on the dongle"""
    import cflib.crtp as crtp
    from vlib.fakeradio import FakeDongle, RadioEnv
    out = Outcome(nontrivial=True)
    out.feat('malformed-with-dongle')
    from cflib.crazyflie import Crazyflie
    cf = Crazyflie()
    events = []
    for n in ['connection_requested', 'connection_failed', 'link_established', 'connected', 'fully_connected', 'disconnected', 'connection_lost']:
        getattr(cf, n).add_callback(lambda *a, n=n: events.append(n))
    dongle = FakeDongle(serial='E7E7E7E7AB')
    saved = list(crtp.CLASSES)
    crtp.CLASSES[:] = _classes(False)
    try:
        with RadioEnv(lambda: [dongle]):
            try:
                cf.open_link(case['uri'])
            except BaseException as e:  # noqa
                out.fail('openlink:escaping-exception:malformed-with-dongle', '%r -> %r' % (case['uri'], e))
            import time as _t
            _t.sleep(0.02)
            if events != ['connection_requested', 'connection_failed']:
                out.fail('openlink:events:malformed-with-dongle', '%r -> %r' % (case['uri'], events))
            if dongle.tx or dongle.ctrl:
                out.fail('openlink:dongle-used:malformed', '%r: the dongle was configured %r and transmitted %r' % (case['uri'], dongle.ctrl[:4], dongle.tx[:2]))
            if cf.link is not None:
                out.fail('openlink:link-left', '%r leaves link %r' % (case['uri'], cf.link))
                # closing may never return (the radio thread can be waiting for a dongle answer that never comes): do not wait for it
                import threading as _th
                lnk = cf.link
                try:
                    lnk._thread._sp = True
                    lnk._radio._rsp_queue.put(None)
                except Exception:  # noqa
                    pass
                closer = _th.Thread(target=lambda: cf.close_link(), daemon=True)
                closer.start()
                closer.join(2.0)
    finally:
        crtp.CLASSES[:] = saved
    return out


def subchecks(tier):
    return [
        Sub('parse', run_parse, strategy=radio_uri(), examples={'quick': 2500, 'thorough': 150000}),
        Sub('connect', run_connect, strategy=connect_case(), examples={'quick': 120, 'thorough': 6000}),
        Sub('scan', run_scan, strategy=scan_case(), examples={'quick': 60, 'thorough': 3000}),
        Sub('claim', run_claim, strategy=claim_case(), examples={'quick': 400, 'thorough': 20000}),
        Sub('openlink', run_openlink, strategy=openlink_case(), examples={'quick': 200, 'thorough': 10000}),
        Sub('malformed-with-dongle', run_malformed_with_dongle, cases=malformed_cases, distinct_by_construction=True),
    ]
