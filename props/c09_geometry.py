"""C09: lighthouse geometry estimation recovers the true base-station poses (or rejects unlinkable systems)."""
import math

import numpy as np
from hypothesis import strategies as st

from vlib.rooms import SENSORS, Room, rot_angle, rot_axis
from vlib.runner import Outcome, Sub

PROPERTY = 'C09'
LEVEL = 'exploration'
SHARDS = {'quick': 8, 'thorough': 16}
WATCHDOG = {'quick': 900, 'thorough': 6 * 3600}
RULE = ('Hypothesis draws the structure of a room (2..6 base stations with arbitrary ids 0..15, 3..40 Crazyflie poses, visibility: full, '
        'connected chain, random connected subsets, or deliberately disconnected; measurement order and time-stamp grouping: sparse 0.5 s '
        'apart or dense 30 ms apart with up to 12 ms spread) and a geometry seed; poses are placed in the stated envelope (stations 1.5-4 m '
        'from every pose, above and facing the flight volume with up to 5 deg jitter, Crazyflie random yaw and tilt <= 10 deg) and exact '
        'sweep angles are synthesised independently. O1: one of the two IPPE solutions is the true relative pose. O2: the solver started '
        'at the truth stays at the truth (1 mm / 1 mrad) and reports success. O3: match -> estimate -> solve returns the truth in the frame '
        'of the first sample, unlinkable systems raise LhException, linkable ones never raise, matcher grouping equals an independent '
        're-implementation. One room in seven keeps all poses inside a 0.5 m box (hovering). Sub "dropped-sample-rooms" replays stored rooms '
        '(found offline by tools/find_dropped_rooms.py on the unchanged tree) in which the estimator discards error-free samples and a '
        'station is first seen after the first discarded one; sub "rough-initial-rooms" replays stored rooms (tools/find_rough_rooms.py) whose '
        'initial estimate is rough on the unchanged tree and which the solver nevertheless solves to 0.3 mm. Non-trivial = >= 3 stations with partial visibility, exactly 2 stations, or '
        'non-contiguous ids.')
ASSUMPTIONS = ['measurements of one pose lie within 20 ms of the first one and consecutive poses are more than 20 ms apart from that first one',
               'a station is only "visible" when all four sensors are inside +-60/+-50 deg and it looks at the top side of the deck',
               'tolerances: 1 mm / 1 mrad as stated; IPPE containment 2 cm / 20 mrad (float32 projection input, 3 cm deck)']


def _build(case):
    from cflib.localization.lighthouse_bs_vector import LighthouseBsVector, LighthouseBsVectors
    from cflib.localization.lighthouse_types import LhMeasurement
    room = Room(case)
    ids = room.ids
    ncf = case['ncf']
    vis = []
    rng = np.random.RandomState((case['seed'] * 7 + 3) % (2 ** 31))
    for i in range(ncf):
        cand = [b for b in ids if room.in_view(b, i)]
        mode = case['visibility']
        if mode == 'full':
            v = cand
        elif mode == 'chain':
            k = i % max(1, len(ids) - 1)
            v = [b for b in (ids[k], ids[(k + 1) % len(ids)]) if b in cand]
        elif mode == 'ring':
            # like chain, but the last station is also seen together with the first one
            k = i % len(ids)
            v = [b for b in (ids[k], ids[(k + 1) % len(ids)]) if b in cand]
        elif mode == 'split':
            half = len(ids) // 2
            group = ids[:half] if i % 2 == 0 else ids[half:]
            v = [b for b in group if b in cand]
        else:
            n = rng.randint(2, len(ids) + 1)
            v = [b for b in rng.choice(ids, size=n, replace=False).tolist() if b in cand]
        vis.append(sorted(v))
    meas = []
    t = 0.0
    step = 0.5 if case['timing'] == 'sparse' else 0.030
    groups = []
    for i in range(ncf):
        order = list(vis[i])
        if case['bs_order'] == 'reverse':
            order = order[::-1]
        g = []
        for k, b in enumerate(order):
            spread = 0.012 if case['timing'] == 'dense' else 0.018
            if case['timing'] == 'boundary':
                spread = 0.020      # the last sweep of a pose arrives exactly one matching window after the first
            ts = t + (spread * k / max(1, len(order) - 1) if len(order) > 1 else 0.0)
            vecs = LighthouseBsVectors()
            for (h, v, x) in room.angles(b, i):
                vecs.append(LighthouseBsVector(h, v))
            meas.append(LhMeasurement(ts, b, vecs))
            g.append(b)
        if g:
            groups.append((t, sorted(g), i))
        t += step
    return room, vis, meas, groups


def _linked(groups, ids_seen):
    """union-find over stations that share a sample (>= 2 stations)"""
    parent = {b: b for b in ids_seen}

    def find(x):
        while parent[x] != x:
            x = parent[x]
        return x
    for t, g, i in groups:
        for b in g[1:]:
            parent[find(b)] = find(g[0])
    return len(set(find(b) for b in ids_seen)) == 1


def run_room(case):
    from cflib.localization.lighthouse_geometry_solver import LighthouseGeometrySolver
    from cflib.localization.lighthouse_initial_estimator import LighthouseInitialEstimator
    from cflib.localization.lighthouse_sample_matcher import LighthouseSampleMatcher
    from cflib.localization.lighthouse_types import LhException, LhDeck4SensorPositions
    out = Outcome()
    room, vis, meas, groups = _build(case)
    ids = room.ids
    usable = [g for g in groups if len(g[1]) >= 2]
    contiguous = ids == list(range(ids[0], ids[0] + len(ids)))
    partial = any(len(g[1]) < len(ids) for g in usable)
    out.nontrivial = (len(ids) >= 3 and partial) or len(ids) == 2 or not contiguous
    out.feat('stations-%d' % len(ids), 'vis-' + case['visibility'], 'timing-' + case['timing'], 'contiguous-ids' if contiguous else 'gappy-ids',
             'poses-%s' % ('3-9' if case['ncf'] < 10 else '10-40'), 'poses-in-a-small-box' if case.get('box') else 'poses-over-the-volume')
    desc = 'seed=%d ids=%r ncf=%d vis=%s timing=%s' % (case['seed'], ids, case['ncf'], case['visibility'], case['timing'])
    # ---- matcher vs independent grouping
    matched = LighthouseSampleMatcher.match(meas, min_nr_of_bs_in_match=2)
    ref_groups = []
    cur = None
    for m in meas:
        if cur is None or m.timestamp > cur[0] + 0.020:
            if cur is not None:
                ref_groups.append(cur)
            cur = [m.timestamp, {}]
        cur[1][m.base_station_id] = m
    if cur is not None:
        ref_groups.append(cur)
    ref_groups = [g for g in ref_groups if len(g[1]) >= 2]
    got_groups = [(s.timestamp, sorted(s.angles_calibrated.keys())) for s in matched]
    if got_groups != [(g[0], sorted(g[1].keys())) for g in ref_groups] or [sorted(g[1]) for g in ref_groups] != [g[1] for g in usable]:
        out.fail('matcher:grouping', '%s: matcher produced %d samples %r, poses seen by >=2 stations: %r' % (desc, len(got_groups), got_groups[:4], [g[1] for g in usable][:4]))
        return out
    seen = sorted(set(b for g in usable for b in g[1]))
    if len(usable) < 1 or len(seen) < 2:
        out.feat('too-little-data')
        return out
    linked = _linked(usable, seen)
    sensors = LhDeck4SensorPositions.positions
    if np.max(np.abs(np.asarray(sensors) - SENSORS)) > 1e-12:
        out.fail('deck:sensor-positions', 'library sensor positions %r' % (np.asarray(sensors).tolist(),))
    # ---- end to end
    try:
        init, cleaned = LighthouseInitialEstimator.estimate(matched, sensors)
    except LhException as e:
        if linked:
            out.fail('estimate:linkable-rejected', '%s: %r' % (desc, e))
        else:
            out.feat('unlinkable-rejected')
        return out
    except Exception as e:  # noqa
        out.fail('estimate:raises:%s' % type(e).__name__, '%s: %r' % (desc, e))
        return out
    if not linked:
        out.fail('estimate:unlinkable-accepted', '%s: stations %r are not linked through shared samples but estimate() returned poses for %r' % (desc, seen, sorted(init.bs_poses)))
        return out
    if len(cleaned) != len(matched):
        # mechanism: did the clustering of the mirror solutions settle on a wrong relative station position?
        wrong_pairs = []
        try:
            pos = LighthouseInitialEstimator._find_solutions(matched, sensors)
            for pair, p in pos.items():
                Ra, ta = room.bs[pair.bs1]
                Rb_, tb_ = room.bs[pair.bs2]
                true_rel = Ra.T @ (tb_ - ta)
                if np.linalg.norm(np.asarray(p) - true_rel) > 0.3:
                    wrong_pairs.append((pair.bs1, pair.bs2))
        except Exception:  # noqa
            pass
        mech = 'mirror-cluster-chosen' if wrong_pairs else 'other'
        out.fail('estimate:clean-samples-dropped:%s' % mech, '%s: %d of %d error-free samples discarded as outliers; station pairs with a wrong clustered position: %r' % (
            desc, len(matched) - len(cleaned), len(matched), wrong_pairs))
        kept = set(round(s_.timestamp, 6) for s_ in cleaned)
        usable = [g for g in usable if round(g[0], 6) in kept]
        if not usable:
            return out
    # ---- the initial estimate is expressed in the frame of the FIRST sample: positively identify an estimate that is the
    # truth seen from another sample (all stations within 0.2 rad / 0.2 m of it) while it is far from the truth seen from the first
    def _frame_fit(k):
        tbk, _ = room.relative(k)
        return max((max(rot_angle(init.bs_poses[b].rot_matrix, tbk[b][0]), float(np.linalg.norm(init.bs_poses[b].translation - tbk[b][1]))) for b in seen
                    if b in init.bs_poses), default=9.0)
    if sorted(init.bs_poses) == seen:
        fit0 = _frame_fit(usable[0][2])
        if fit0 > 0.4:
            for (t_k, g_k, k) in usable[1:]:
                if _frame_fit(k) < 0.2:
                    out.fail('estimate:frame-of-another-sample', '%s: the initial estimate matches the truth seen from sample %d (within %.3f), not from the first usable '
                             'sample %d (off by %.3f)' % (desc, k, _frame_fit(k), usable[0][2], fit0))
                    break
    try:
        sol = LighthouseGeometrySolver.solve(init, cleaned, sensors)
    except Exception as e:  # noqa
        out.fail('solve:raises:%s' % type(e).__name__, '%s: %r' % (desc, e))
        return out
    ref_i = usable[0][2]
    tb, tc = room.relative(ref_i)
    maxp = maxr = 0.0
    if sorted(sol.bs_poses) != seen:
        out.fail('solve:station-set', '%s: solved %r, seen %r' % (desc, sorted(sol.bs_poses), seen))
        return out
    for b in seen:
        p = sol.bs_poses[b]
        maxp = max(maxp, float(np.linalg.norm(p.translation - tb[b][1])))
        maxr = max(maxr, rot_angle(p.rot_matrix, tb[b][0]))
    for (t_, g, i), p in zip(usable, sol.cf_poses):
        maxp = max(maxp, float(np.linalg.norm(p.translation - tc[i][1])))
        maxr = max(maxr, rot_angle(p.rot_matrix, tc[i][0]))
    if maxp > 1e-3 or maxr > 1e-3:
        # mechanism: was the initial estimate already mirrored for some station / sample?
        ini_r = 0.0
        for b in seen:
            ini_r = max(ini_r, rot_angle(init.bs_poses[b].rot_matrix, tb[b][0]))
        for (t_, g, i), p in zip(usable, init.cf_poses):
            ini_r = max(ini_r, rot_angle(p.rot_matrix, tc[i][0]))
        resid = float(sol.error_info.get('max_error', 0.0)) if isinstance(sol.error_info, dict) else 0.0
        if ini_r > 0.3 and resid > 1e-6:
            mech = 'mirrored-initial-estimate'
        elif resid <= 1e-6:
            mech = 'zero-residual-but-wrong'
        else:
            # does the library's own solver reach the truth from the same initial estimate when it may evaluate longer?
            import cflib.localization.lighthouse_geometry_solver as G
            orig_init = G.LighthouseGeometrySolution.__init__

            def long_init(self_):
                orig_init(self_)
                self_.max_nr_iter = 5000
            G.LighthouseGeometrySolution.__init__ = long_init
            try:
                sol2 = LighthouseGeometrySolver.solve(init, cleaned, sensors)
            finally:
                G.LighthouseGeometrySolution.__init__ = orig_init
            p2 = r2 = 0.0
            for b in seen:
                p2 = max(p2, float(np.linalg.norm(sol2.bs_poses[b].translation - tb[b][1])))
                r2 = max(r2, rot_angle(sol2.bs_poses[b].rot_matrix, tb[b][0]))
            improved = p2 <= max(maxp / 2, 1e-3) and r2 <= max(maxr / 2, 1e-3) and p2 <= 5e-3 and r2 <= 5e-3
            mech = 'evaluation-cap' if (improved and not sol.success) else 'good-initial-estimate-wrong-answer'
        if case.get('stored_exact'):
            # a stored room that the pinned library solves exactly although its initial estimate is rough: not the listed finding
            mech = 'stored-room-no-longer-solved(%s)' % mech
        out.fail('solve:wrong-geometry:%s' % mech, '%s: max position error %.4f m, rotation error %.4f rad, solver success=%r residual %.2e, initial estimate rotation error %.3f rad' % (
            desc, maxp, maxr, sol.success, resid, ini_r))
    return out


def run_ippe(case):
    """O1 / O2 on one (station, pose) pair and on a small fully visible room"""
    from cflib.localization.ippe_cf import IppeCf
    from cflib.localization.lighthouse_bs_vector import LighthouseBsVector, LighthouseBsVectors
    from cflib.localization.lighthouse_geometry_solver import LighthouseGeometrySolver
    from cflib.localization.lighthouse_types import LhBsCfPoses, LhCfPoseSample, LhDeck4SensorPositions, Pose
    out = Outcome()
    room = Room(case)
    ids = room.ids
    out.nontrivial = True
    out.feat('ippe-stations-%d' % len(ids))
    desc = 'seed=%d ids=%r ncf=%d' % (case['seed'], ids, case['ncf'])
    sensors = LhDeck4SensorPositions.positions
    # O1
    for i in range(min(case['ncf'], 4)):
        for b in ids:
            if not room.in_view(b, i):
                continue
            vecs = LighthouseBsVectors()
            for (h, v, x) in room.angles(b, i):
                vecs.append(LighthouseBsVector(h, v))
            Q = vecs.projection_pair_list()
            sols = IppeCf.solve(sensors, Q)
            # each returned solution is one pose: its reprojection error is the one of ITS rotation with ITS translation
            for k, s_ in enumerate(sols):
                P = (np.asarray(s_.R) @ np.asarray(sensors).T).T + np.ravel(s_.t)
                if np.all(P[:, 0] > 1e-6):
                    err = float(np.linalg.norm(np.stack([P[:, 1] / P[:, 0], P[:, 2] / P[:, 0]], axis=1) - np.asarray(Q)))
                    if abs(err - float(s_.reproj_err)) > 1e-7 + 1e-5 * err:
                        out.fail('ippe:solution-inconsistent', '%s station %d pose %d: solution %d reports reprojection error %.3e, its pose reprojects with %.3e' % (
                            desc, b, i, k, float(s_.reproj_err), err))
                        return out
            Rb, tb_ = room.bs[b]
            Rc, tc_ = room.cfs[i]
            # pose of the Crazyflie in the station frame
            Rt = Rb.T @ Rc
            tt = Rb.T @ (tc_ - tb_)
            best = min(max(np.linalg.norm(np.ravel(s.t) - tt) / 20.0, rot_angle(np.asarray(s.R), Rt)) for s in sols)
            if best > 0.02:
                out.fail('ippe:truth-not-among-solutions', '%s station %d pose %d: closest IPPE solution is %.4f (rad or m/20) from the truth' % (desc, b, i, best))
                return out
    # O2: solver from a slightly perturbed truth, full visibility of what is in view
    samples = []
    used = []
    for i in range(case['ncf']):
        ang = {}
        for b in ids:
            if room.in_view(b, i):
                vecs = LighthouseBsVectors()
                for (h, v, x) in room.angles(b, i):
                    vecs.append(LighthouseBsVector(h, v))
                ang[b] = vecs
        if len(ang) >= 2:
            samples.append(LhCfPoseSample(angles_calibrated=ang))
            used.append(i)
    seen = sorted(set(b for s in samples for b in s.angles_calibrated))
    if len(samples) < 2 or len(seen) < 2:
        return out
    tb, tc = room.relative(used[0])
    rng = np.random.RandomState(case['seed'] % 1000 + 5)

    def jig(R, t):
        # the truth itself must be a fixed point of the solver (no perturbation: what solve() promises from an arbitrary
        # start is not part of the property)
        return Pose(R.copy(), t.copy())
    guess = LhBsCfPoses({b: jig(*tb[b]) for b in seen}, [Pose(*tc[used[0]])] + [jig(*tc[i]) for i in used[1:]])
    sol = LighthouseGeometrySolver.solve(guess, samples, sensors)
    maxp = maxr = 0.0
    for b in seen:
        maxp = max(maxp, float(np.linalg.norm(sol.bs_poses[b].translation - tb[b][1])))
        maxr = max(maxr, rot_angle(sol.bs_poses[b].rot_matrix, tb[b][0]))
    for i, p in zip(used, sol.cf_poses):
        maxp = max(maxp, float(np.linalg.norm(p.translation - tc[i][1])))
        maxr = max(maxr, rot_angle(p.rot_matrix, tc[i][0]))
    if maxp > 1e-3 or maxr > 1e-3 or not sol.success:
        out.fail('solver:truth-not-a-fixed-point', '%s: started at the truth, ended %.5f m / %.5f rad away, success=%r' % (desc, maxp, maxr, sol.success))
    return out


@st.composite
def room_case(draw):
    n = draw(st.sampled_from([2, 2, 3, 3, 4, 5, 6]))
    ids = sorted(draw(st.lists(st.integers(0, 15), min_size=n, max_size=n, unique=True)))
    if draw(st.sampled_from([False, False, True])):
        ids = list(range(n))
    ncf = draw(st.one_of(st.integers(3, 12), st.integers(3, 40)))
    vis = draw(st.sampled_from(['full', 'full', 'random', 'random', 'chain', 'ring', 'split'])) if n >= 3 else draw(st.sampled_from(['full', 'full', 'random']))
    return {'seed': draw(st.integers(0, 2 ** 31 - 1)), 'ids': ids, 'ncf': ncf, 'visibility': vis, 'timing': draw(st.sampled_from(['sparse', 'sparse', 'dense', 'boundary'])),
            'bs_order': draw(st.sampled_from(['sorted', 'reverse'])), 'max_tilt': draw(st.sampled_from([10.0, 10.0, 3.0, 0.0])),
            'yaw_mode': draw(st.sampled_from(['random', 'random', 'random', 'quarter'])), 'box': draw(st.sampled_from([None] * 6 + [0.5]))}


# ---------------------------------------------------------------- pose averaging (anchored mechanism: quaternion averaging)
def run_average(case):
    """The average of several estimates of ONE pose that agree to within a hair is that pose - whatever the orientation
    (quaternions q and -q are the same rotation; near half a turn tiny perturbations flip the sign scipy reports)."""
    from cflib.localization.lighthouse_initial_estimator import LighthouseInitialEstimator
    from cflib.localization.lighthouse_types import Pose
    out = Outcome()
    R0 = rot_axis(case['axis'], case['angle'])
    if case.get('yaw') is not None:
        R0 = rot_axis([0, 0, 1], case['yaw']) @ (R0 if case['tilted'] else np.eye(3))
    t0 = np.array(case['pos'], float)
    rng = np.random.RandomState(case['seed'])
    poses = []
    for k in range(case['n']):
        dR = rot_axis(rng.normal(size=3) + 1e-9, case['eps'] * rng.uniform(0, 1)) if case['eps'] else np.eye(3)
        poses.append(Pose(dR @ R0, t0 + rng.uniform(-1, 1, 3) * case['eps']))
    try:
        avg = LighthouseInitialEstimator._avarage_poses(poses)
    except Exception as e:  # noqa
        out.fail('average:raises', '%r: %r' % (case, e))
        return out
    err_r = rot_angle(avg.rot_matrix, R0)
    err_t = float(np.linalg.norm(avg.translation - t0))
    half = abs(abs(math.acos(max(-1.0, min(1.0, (np.trace(R0) - 1) / 2)))) - math.pi) < 1e-3
    out.nontrivial = case['n'] >= 2 and (half or case.get('yaw') is not None)
    out.feat('average-n%d' % min(case['n'], 3), 'near-half-turn' if half else 'generic-orientation', 'quarter-yaw' if case.get('yaw') is not None else 'free-axis')
    tol = 10 * case['eps'] + 1e-6
    if not (err_r <= tol and err_t <= tol):
        out.fail('average:not-the-common-pose', 'n=%d eps=%g axis=%r angle=%r yaw=%r: average is %.3g rad / %.3g m from the pose all inputs agree on' % (
            case['n'], case['eps'], case['axis'], case['angle'], case.get('yaw'), err_r, err_t))
    return out


@st.composite
def average_case(draw):
    axis = draw(st.one_of(st.lists(st.floats(-1, 1, allow_nan=False), min_size=3, max_size=3).filter(lambda v: sum(x * x for x in v) > 0.01),
                          st.sampled_from([[1.0, 0, 0], [0, 1.0, 0], [0, 0, 1.0], [1.0, 1.0, 0]])))
    angle = draw(st.one_of(st.floats(0, math.pi), st.sampled_from([0.0, math.pi, math.pi / 2, math.pi - 1e-9, 2.0])))
    yaw = draw(st.sampled_from([None, None, 0.0, math.pi / 2, -math.pi / 2, math.pi, -math.pi]))
    return {'axis': axis, 'angle': angle, 'yaw': yaw, 'tilted': draw(st.booleans()), 'pos': draw(st.lists(st.floats(-3, 3, allow_nan=False), min_size=3, max_size=3)),
            'n': draw(st.integers(1, 6)), 'eps': draw(st.sampled_from([0.0, 1e-12, 1e-9, 1e-6])), 'seed': draw(st.integers(0, 10 ** 6))}


def subchecks(tier):
    return [
        Sub('rooms', run_room, strategy=room_case(), examples={'quick': 160, 'thorough': 9600}),
        Sub('ippe-and-solver', run_ippe, strategy=room_case(), examples={'quick': 160, 'thorough': 6000}),
        Sub('dropped-sample-rooms', run_room, cases=dropped_room_cases, distinct_by_construction=True),
        Sub('long-recordings', run_room, cases=long_recording_cases, distinct_by_construction=True),
        Sub('rough-initial-rooms', run_room, cases=rough_room_cases, distinct_by_construction=True),
        Sub('pose-averaging', run_average, strategy=average_case(), examples={'quick': 800, 'thorough': 40000}),
    ]


def long_recording_cases(tier):
    """long recordings: several hundred matched samples (more than fit one byte of index)"""
    for seed, ids, ncf in ((11, [0, 1, 2], 330), (12, [0, 1, 2], 330), (13, [1, 3], 300), (14, [0, 1, 2, 3], 520)):
        yield {'seed': seed, 'ids': ids, 'ncf': ncf, 'visibility': 'full', 'timing': 'sparse', 'bs_order': 'sorted', 'max_tilt': 10.0, 'yaw_mode': 'random', 'box': None}


def dropped_room_cases(tier):
    """stored rooms (tools/find_dropped_rooms.py) in which the unchanged library discards error-free samples and a station is first seen later"""
    import json
    import os
    path = os.path.join(os.path.dirname(os.path.dirname(os.path.abspath(__file__))), 'corpus', 'C09', 'dropped-sample-rooms.json')
    for c in json.load(open(path)):
        yield c
        yield dict(c, bs_order='reverse')      # the same room with the stations reporting in descending id order


def rough_room_cases(tier):
    """stored rooms (tools/find_rough_rooms.py) whose initial estimate is rough on the unchanged library and which its solver solves exactly"""
    import json
    import os
    path = os.path.join(os.path.dirname(os.path.dirname(os.path.abspath(__file__))), 'corpus', 'C09', 'rough-initial-rooms.json')
    for c in json.load(open(path)):
        yield c


def finalize(stats):
    """rate bound for the mechanism-identified known finding (DESIGN 3/C09): baseline 2-5 %"""
    st_ = stats.get('rooms')
    if not st_:
        return []
    n = st_['evaluations']
    hits = st_['known_hits'].get('solve:wrong-geometry:mirrored-initial-estimate', 0)
    res = []
    if n >= 100 and hits > 0.10 * n:
        res.append(('solve:mirrored-rate', '%d of %d rooms ended in a mirrored local minimum (baseline 2-5 %%, bound 10 %%)' % (hits, n), {'rooms': n, 'mirrored': hits}))
    dropped = st_['known_hits'].get('estimate:clean-samples-dropped:mirror-cluster-chosen', 0)
    if n >= 100 and dropped > max(3, 0.03 * n):
        res.append(('estimate:dropped-rate', '%d of %d rooms had error-free samples discarded as outliers (baseline below 1 %%, bound 3 %%)' % (dropped, n),
                    {'rooms': n, 'dropped': dropped}))
    return res
