"""C07: every received packet reaches exactly the matching callbacks, once, in order; robust to mutation/raising."""
from hypothesis import strategies as st

from vlib.runner import Outcome, Sub

PROPERTY = 'C07'
LEVEL = 'exploration'
SHARDS = {'quick': 4, 'thorough': 16}
RULE = ('Hypothesis draws a table of <=8 distinct registrations (callback id from a pool of 5 so one function may be registered under '
        'several patterns; port, port mask, channel, channel mask; via add_port_callback or add_header_callback), a packet header '
        'sequence (sub "all-headers": all 256 header bytes) and per-(callback, packet) behaviours {raise, remove self/other, add new, close the '
        'link for 1-3 idle periods of the dispatcher}. '
        'The real _IncomingPacketHandler.run() executes on the harness thread against a scripted link; oracle = independent matcher '
        '(cb.port == pk.port & pmask and cb.channel == pk.channel & cmask). Non-trivial = a callback mutates the table or raises during a '
        'dispatch with >= 2 matching registrations (or, for all-headers, a table with >= 2 registrations matching one header).')
ASSUMPTIONS = ['registrations are distinct 5-tuples (the property quantifies over sets of distinct registrations)',
               'a registration added or removed while a packet is being dispatched may or may not see that packet (both accepted)',
               'only port/header callbacks raise; all-packet (packet_received) callbacks do not']


class _End(BaseException):
    pass


class _Link:
    def __init__(self, packets, log):
        self.packets = list(packets)
        self.i = 0
        self.log = log

    def receive_packet(self, wait=0):
        if self.i >= len(self.packets):
            raise _End()
        pk = self.packets[self.i]
        self.log.append(('recv', self.i))
        self.i += 1
        return pk


def _matches(reg, port, channel):
    return reg['port'] == (port & reg['pmask']) and reg['channel'] == (channel & reg['cmask'])


def run_dispatch(case):
    from cflib.crazyflie import Crazyflie, _IncomingPacketHandler
    from cflib.crtp.crtpstack import CRTPPacket
    from cflib.utils.callbacks import Caller
    out = Outcome()

    class FakeCf:
        pass
    cf = FakeCf()
    cf.packet_received = Caller()
    handler = _IncomingPacketHandler(cf)
    cf.incoming = handler
    # a second Crazyflie object in the same process with a catch-all registration of its own: nothing of this link is for it
    cf2 = FakeCf()
    cf2.packet_received = Caller()
    cf2.incoming = _IncomingPacketHandler(cf2)
    foreign = []
    Crazyflie.add_header_callback(cf2, lambda pk: foreign.append(pk), 0, 0, 0, 0)
    log = []
    packets = [CRTPPacket(h) for h in case['packets']]
    cf.link = _Link(packets, log)
    cur = {'k': -1}
    all_seen = []
    cf.packet_received.add_callback(lambda pk: (all_seen.append(pk), cur.__setitem__('k', cur['k'] + 1)))

    model = []          # registrations currently present, in registration order
    volatile = {}       # packet index -> list of regs added/removed during that dispatch
    calls = {}          # packet index -> list of cb ids in call order
    done = set()
    behaviours = {}
    for b in case.get('behaviours', []):
        behaviours.setdefault((b['cb'], b['packet']), []).append(b)
    funcs = {}

    def _key(r):
        return (r['cb'], r['port'], r['pmask'], r['channel'], r['cmask'])

    def add(reg):
        if any(_key(r) == _key(reg) for r in model):
            return False      # registrations are distinct (the same one made through the other entry point is the same one)
        f = funcs[reg['cb']]
        if reg['via'] == 'port':
            Crazyflie.add_port_callback(cf, reg['port'], f)
        else:
            Crazyflie.add_header_callback(cf, f, reg['port'], reg['channel'], reg['pmask'], reg['cmask'])
        model.append(reg)
        return True

    def remove(reg):
        f = funcs[reg['cb']]
        if reg['via'] == 'port':
            Crazyflie.remove_port_callback(cf, reg['port'], f)
        else:
            Crazyflie.remove_header_callback(cf, f, reg['port'], reg['channel'], reg['pmask'], reg['cmask'])
        model.remove(reg)

    saved = {}

    def close_link(idle):
        # what close_link() does as far as the dispatcher is concerned: the link is gone; the application opens it again
        # after `idle` of the dispatcher's idle periods
        if cf.link is not None:
            saved['link'], saved['idle'] = cf.link, idle
            cf.link = None
            out.feat('link-closed-inside-dispatch')

    class _Time:
        def sleep(self_, d):
            saved['idle'] = saved.get('idle', 1) - 1
            if saved['idle'] <= 0 and 'link' in saved:
                cf.link = saved.pop('link')
            saved['sleeps'] = saved.get('sleeps', 0) + 1
            if saved['sleeps'] > 200:
                raise _End()

        def time(self_):
            return 0.0

    def make(cbid):
        def f(pk):
            k = cur['k']
            calls.setdefault(k, []).append(cbid)
            if pk is not packets[k]:
                out.fail('dispatch:wrong-packet-object', 'cb %d packet %d' % (cbid, k))
            if (cbid, k) in done:
                return
            done.add((cbid, k))
            do_raise = False
            for b in behaviours.get((cbid, k), []):
                if b['action'] == 'raise':
                    do_raise = True
                elif b['action'] == 'remove':
                    idx = b['target']
                    if model:
                        reg = model[idx % len(model)] if b.get('other') else next((r for r in model if r['cb'] == cbid), None)
                        if reg is not None:
                            volatile.setdefault(k, []).append(reg)
                            remove(reg)
                elif b['action'] == 'add':
                    reg = _norm(b['reg'])
                    if add(reg):
                        volatile.setdefault(k, []).append(reg)
                elif b['action'] == 'add-remove':
                    # a start()/stop() pair inside one callback: the registration is made and taken back while this packet is being
                    # dispatched; it must not receive this packet's successors
                    reg = _norm(b['reg'])
                    if add(reg):
                        volatile.setdefault(k, []).append(reg)
                        remove(reg)
                        out.feat('added-and-removed-within-one-dispatch')
                elif b['action'] == 'close':
                    close_link(b.get('idle', 1))
                elif b['action'] == 'rewrite':
                    # the callback re-uses the packet object for its answer: the header the packet ARRIVED with decides who gets it
                    pk.set_header(b['port'], b['channel'])
                    out.feat('callback-rewrites-the-packet-header')
            if do_raise:
                raise RuntimeError('callback %d raises on packet %d' % (cbid, k))
        return f

    import functools

    class _Callable:
        def __init__(self, f):
            self.f = f

        def __call__(self, pk):
            return self.f(pk)

    class _Holder:
        def __init__(self, f):
            self.f = f

        def method(self, pk):
            return self.f(pk)
    kinds = case.get('kinds', ['function'] * 5)
    keep = []
    for i in range(5):
        f = make(i)
        k = kinds[i % len(kinds)]
        if k == 'partial':
            f = functools.partial(lambda inner, pk: inner(pk), f)
        elif k == 'instance':
            f = _Callable(f)
        elif k == 'method':
            h = _Holder(f)
            keep.append(h)
            f = h.method
        funcs[i] = f
    for reg in case['regs']:
        add(_norm(reg))

    # run the real dispatcher loop on this thread; snapshot the model before each packet via packet_received hook
    snapshots = {}

    def all_actor(pk):
        # an all-packet callback that changes the table: it runs before the port callbacks of this packet, so its changes
        # count for this packet already (a registration it removes is not called, one it adds is)
        k = cur['k']
        for b in behaviours.get((-1, k), []):
            if b['action'] == 'remove' and model:
                remove(model[b['target'] % len(model)])
            elif b['action'] == 'add':
                add(_norm(b['reg']))
            elif b['action'] == 'close':
                close_link(b.get('idle', 1))
    cf.packet_received.add_callback(all_actor)
    cf.packet_received.add_callback(lambda pk: snapshots.__setitem__(cur['k'], list(model)))
    import cflib.crazyflie as cfmod
    real_time = cfmod.time
    cfmod.time = _Time()
    try:
        handler.run()
    except _End:
        pass
    except BaseException as e:  # noqa
        out.fail('dispatch:loop-died', repr(e))
        return out
    finally:
        cfmod.time = real_time

    if foreign:
        out.fail('dispatch:other-object', '%d packet(s) of this link were handed to a callback registered on another Crazyflie object' % len(foreign))
    if len(all_seen) != len(packets) or any(a is not b for a, b in zip(all_seen, packets)):
        out.fail('dispatch:all-packet-callback', 'packet_received saw %d of %d packets' % (len(all_seen), len(packets)))
    mutated = False
    for k, pk in enumerate(packets):
        port, channel = (case['packets'][k] & 0xF0) >> 4, case['packets'][k] & 3
        snap = snapshots.get(k)
        if snap is None:
            out.fail('dispatch:packet-not-processed', 'packet %d' % k)
            break
        vol = volatile.get(k, [])
        stable = [r for r in snap if _matches(r, port, channel) and not any(r is v or r == v for v in vol)]
        vol_match = [r for r in vol if _matches(r, port, channel)]
        observed = calls.get(k, [])
        nmatch = len([r for r in snap if _matches(r, port, channel)])
        raised = any(b['action'] == 'raise' for cb in set(observed) for b in behaviours.get((cb, k), []))
        if (vol or raised) and nmatch >= 2:
            mutated = True
        want = [r['cb'] for r in stable]
        desc = 'packet %d hdr 0x%02x: table %s volatile %s expected calls %r observed %r' % (
            k, case['packets'][k], [_short(r) for r in snap], [_short(r) for r in vol], want, observed)
        if not vol_match:
            if observed != want:
                if len(observed) < len(want):
                    out.fail('dispatch:missed' + (':after-raise' if raised else '') + (':table-mutated' if vol else ''), desc)
                elif len(observed) > len(want):
                    out.fail('dispatch:extra', desc)
                else:
                    out.fail('dispatch:order', desc)
        else:
            # stable calls must appear as a subsequence, extra calls only from volatile matches
            it = iter(observed)
            if not all(any(x == w for x in it) for w in want):
                out.fail('dispatch:missed:table-mutated', desc)
            extra = list(observed)
            for w in want:
                if w in extra:
                    extra.remove(w)
            allowed = [r['cb'] for r in vol_match]
            for x in extra:
                if x in allowed:
                    allowed.remove(x)
                else:
                    out.fail('dispatch:extra', desc)
                    break
    nm = max((len([r for r in case['regs'] if _matches(_norm(r), (h & 0xF0) >> 4, h & 3)]) for h in case['packets']), default=0)
    out.nontrivial = mutated or (not case.get('behaviours') and nm >= 2 and len(case['packets']) == 256)
    out.feat('mutating' if mutated else 'static', 'maxmatch-%d' % min(nm, 3), 'regs-%d' % len(case['regs']))
    if any(b['action'] == 'raise' for b in case.get('behaviours', [])):
        out.feat('has-raise')
    return out


def _norm(reg):
    reg = dict(reg)
    if reg['via'] == 'port':
        reg['pmask'], reg['channel'], reg['cmask'] = 0xff, 0, 0
    return reg


def _short(r):
    return '%d:%x&%x/%x&%x' % (r['cb'], r['port'], r['pmask'], r['channel'], r['cmask'])


_port = st.one_of(st.integers(0, 15), st.sampled_from([0xFF, 2, 5, 15]))
_pmask = st.sampled_from([0xFF, 0xFF, 0x0F, 0x0E, 0x0C, 0x08, 0x00, 0x03])
_cmask = st.sampled_from([0xFF, 0xFF, 0x03, 0x02, 0x01, 0x00])


@st.composite
def _reg(draw):
    via = draw(st.sampled_from(['port', 'header', 'header']))
    pmask = draw(_pmask)
    cmask = draw(_cmask)
    # bias towards patterns that can match at all: port & pmask == port
    port = draw(_port)
    if draw(st.booleans()) and port != 0xFF:
        port &= pmask
    channel = draw(st.integers(0, 3))
    if draw(st.booleans()):
        channel &= cmask
    return _norm({'cb': draw(st.integers(0, 4)), 'via': via, 'port': port, 'pmask': pmask, 'channel': channel, 'cmask': cmask})


def _uniq(regs):
    """distinct registrations: (callback, port, port mask, channel, channel mask) - however they were made"""
    outl = []
    seen = set()
    for r in regs:
        key = (r['cb'], r['port'], r['pmask'], r['channel'], r['cmask'])
        if key not in seen:
            seen.add(key)
            outl.append(r)
    return outl


def _twins(draw, regs):
    """the same callback registered again with the same port and channel values but other masks (removal must tell them apart)"""
    outl = list(regs)
    for r in regs:
        if len(outl) < 10 and draw(st.sampled_from([False, False, True])):
            outl.append(_norm(dict(r, via='header', pmask=draw(_pmask), cmask=draw(_cmask))))
    return _uniq(outl)


@st.composite
def _case(draw):
    regs = _twins(draw, _uniq(draw(st.lists(_reg(), min_size=1, max_size=8))))
    # headers biased to hit the registered ports
    hdr = st.one_of(st.integers(0, 255),
                    st.sampled_from(regs).flatmap(lambda r: st.integers(0, 15).map(
                        lambda x: (((r['port'] & 0xF) << 4) | (x & 0xC) | (r['channel'] & 3)) & 0xFF)))
    packets = draw(st.lists(hdr, min_size=1, max_size=12))
    nb = draw(st.integers(0, 4))
    beh = []
    for _ in range(nb):
        action = draw(st.sampled_from(['raise', 'remove', 'remove', 'add', 'add-remove']))
        b = {'cb': draw(st.sampled_from(regs))['cb'], 'packet': draw(st.integers(0, len(packets) - 1)), 'action': action}
        if action == 'remove':
            b['other'] = draw(st.booleans())
            b['target'] = draw(st.integers(0, 9))
        if action in ('add', 'add-remove'):
            b['reg'] = draw(st.one_of(_reg(), st.sampled_from(regs).map(lambda r: dict(r, cmask=r['cmask'] ^ 1))))
        beh.append(b)
    for _ in range(draw(st.integers(0, 2))):
        action = draw(st.sampled_from(['remove', 'add']))
        b = {'cb': -1, 'packet': draw(st.integers(0, len(packets) - 1)), 'action': action}
        if action == 'remove':
            b['target'] = draw(st.integers(0, 9))
        else:
            b['reg'] = draw(st.one_of(_reg(), st.sampled_from(regs)))
        beh.append(b)
    for _ in range(draw(st.sampled_from([0, 0, 1, 2]))):
        r_ = draw(st.sampled_from(regs))
        beh.append({'cb': r_['cb'], 'packet': draw(st.integers(0, len(packets) - 1)), 'action': 'rewrite',
                    'port': draw(st.one_of(st.integers(0, 15), st.sampled_from(regs).map(lambda r: r['port'] & 0xF))), 'channel': draw(st.integers(0, 3))})
    if draw(st.sampled_from([False, False, True])):
        # the application closes the link from inside a callback (all-packet or port callback) and opens it again later
        beh.append({'cb': draw(st.sampled_from([-1, draw(st.sampled_from(regs))['cb']])), 'packet': draw(st.integers(0, len(packets) - 1)), 'action': 'close',
                    'idle': draw(st.integers(1, 3))})
    return {'regs': regs, 'packets': packets, 'behaviours': beh,
            'kinds': draw(st.lists(st.sampled_from(['function', 'function', 'method', 'partial', 'instance']), min_size=5, max_size=5))}


@st.composite
def _static_case(draw):
    regs = _uniq(draw(st.lists(_reg(), min_size=1, max_size=8)))
    return {'regs': regs, 'packets': list(range(256)), 'behaviours': []}


# ------------------------------------------------------------------ Caller
def run_caller(case):
    from cflib.utils.callbacks import Caller
    out = Outcome()
    c = Caller()
    model = []
    calls = []
    funcs = {}
    script = case['script']
    step = {'i': -1}

    def make(i):
        def f(*args):
            calls.append((i, args))
            for act in case['inside'].get(str(step['i']), {}).get(str(i), []):
                apply(act)
        return f
    for i in range(5):
        funcs[i] = make(i)

    def apply(act):
        kind, i = act
        if kind == 'add':
            c.add_callback(funcs[i])
            if i not in model:
                model.append(i)
        elif kind == 'remove' and i in model:
            c.remove_callback(funcs[i])
            model.remove(i)
    inside = False
    for n, act in enumerate(script):
        step['i'] = n
        if act[0] == 'call':
            snap = list(model)
            del calls[:]
            args = tuple(act[1])
            c.call(*args)
            got = [i for i, a in calls]
            if any(a != args for i, a in calls):
                out.fail('caller:args', repr(calls))
            if got != snap:
                out.fail('caller:calls', 'registered %r, called %r' % (snap, got))
            if case['inside'].get(str(n)):
                inside = True
        else:
            apply(act)
    out.nontrivial = inside
    out.feat('caller-inside-mutation' if inside else 'caller-plain')
    return out


@st.composite
def _caller_case(draw):
    n = draw(st.integers(1, 12))
    script = []
    inside = {}
    for k in range(n):
        kind = draw(st.sampled_from(['add', 'add', 'remove', 'call', 'call']))
        if kind == 'call':
            script.append(['call', draw(st.lists(st.integers(0, 3), max_size=2))])
            if draw(st.booleans()):
                inside[str(k)] = {str(draw(st.integers(0, 4))): [[draw(st.sampled_from(['add', 'remove'])), draw(st.integers(0, 4))]]}
        else:
            script.append([kind, draw(st.integers(0, 4))])
    return {'script': script, 'inside': inside}


def subchecks(tier):
    return [
        Sub('dispatch', run_dispatch, strategy=_case(), examples={'quick': 1500, 'thorough': 100000}),
        Sub('all-headers', run_dispatch, strategy=_static_case(), examples={'quick': 150, 'thorough': 8000}),
        Sub('caller', run_caller, strategy=_caller_case(), examples={'quick': 500, 'thorough': 20000}),
    ]
