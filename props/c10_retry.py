"""C10: unanswered requests are retried until answered, and only then; nothing on a closed link; nothing across sessions."""
from hypothesis import strategies as st

from vlib.dsched import Deadlock, Horizon
from vlib.runner import Outcome, Sub
from vlib.simcf import Net, SimEnv

PROPERTY = 'C10'
LEVEL = 'exploration'
SHARDS = {'quick': 4, 'thorough': 16}
RULE = ('A real Crazyflie opens a link (deterministic scheduler, virtual timers) to a scripted peer. Hypothesis draws up to 5 requests with '
        'expected-reply patterns that share prefixes, timeouts in {0.2, 1.0}, issue times, per-request loss counts and reply delays placed '
        'before/at/after retry instants, unrelated incoming traffic, link kind (needs resending or not), close / link-error / reopen '
        'instants relative to the pending timers, and a thread schedule. Oracle over the virtually time-stamped transmission log: on a '
        'resending link request i is transmitted at t0 + n*timeout exactly while unanswered and the link is open; never after its matching '
        'reply was dispatched; a reply cancels only the longest matching pattern; reliable link: exactly once; nothing entered on a closed '
        'link; no request of session s in session s+1; no retry timer alive after the link is closed. Non-trivial = a reply that races a '
        'timer instant, >= 2 patterns with a shared prefix, or a reopen within one timeout of a pending request. Sub "directed" enumerates: a '
        'request that needed 0..3 repetitions, then the same request again within one timeout; a link error around the instant a pending '
        'request is due again with the application reopening the link from inside the notification (several schedules).')
ASSUMPTIONS = ['patterns of simultaneously pending requests are distinct (identical patterns are indistinguishable by design)',
               'a transmission instant that coincides exactly with the dispatch instant of the matching reply is accepted either way',
               'virtual time: computation instantaneous, timers exact']

EPS = 1e-9


class ScriptDevice:
    """Answers request i (identified by its payload) after `lost` transmissions have been swallowed."""

    def __init__(self, requests):
        self.requests = requests
        self.count = {}
        self.violations = []
        self.transcript = []

    def handle(self, port, channel, data, now=0.0):
        self.transcript.append((now, port, channel, bytes(data)))
        for i, r in enumerate(self.requests):
            if (port, channel, bytes(data)) == (r['port'], r['channel'], bytes(r['data'])):
                self.count[i] = self.count.get(i, 0) + 1
                if r['reply'] is not None and self.count[i] > r['reply']['lost']:
                    return [('req', i)]
        return []


def run_retry(case):
    out = Outcome()
    reqs = case['requests']
    net = Net(needs_resending=case['needs_resending'])
    race = False
    with SimEnv({'version': 10}, net, case.get('schedule'), horizon=100.0) as env:
        s = env.s
        from cflib.crazyflie import Crazyflie
        from cflib.crtp.crtpstack import CRTPPacket
        dev = ScriptDevice(reqs)
        env.world.device = dev
        dispatched = {}      # request index -> first dispatch time of its reply
        issue = {}          # request index -> (time, session)

        def filt(lnk, req, reps):
            res = []
            for r in reps:
                if isinstance(r, tuple) and r[0] == 'req':
                    rq = reqs[r[1]]
                    res.append(((rq['port'], rq['channel'], bytes(rq['expected']) + bytes(rq['reply'].get('tail', [0xEE]))), rq['reply']['delay'], None))
            return res
        env.world.reply_filter = filt

        def on_deliver(lnk, pk):
            # reference semantics: a packet cancels the pending request whose (header, pattern) is its longest matching prefix
            best = None
            data = bytes(pk.data)
            for i, rq in enumerate(reqs):
                if i not in issue or i in dispatched or not rq['expected']:
                    continue
                t0_, sess_ = issue[i]
                if sess_ is None or sess_ != lnk.session:
                    # a request issued while some thread was held up (possibly inside the handling of a link error) belongs to the
                    # session whose link first carried it - the same rule the verdict below uses
                    in_stall = any(ts_ - EPS <= t0_ <= ts_ + d_ + EPS for ts_, d_, _n in s.stall_log)
                    carried = [l_.session for l_ in env.world.links if any((p_, c_, d_) == (rq['port'], rq['channel'], bytes(rq['data'])) for (_t, p_, c_, d_, _cl) in l_.tx)]
                    if not (in_stall and carried and carried[0] == lnk.session):
                        continue
                if (pk.port, pk.channel) == (rq['port'], rq['channel']) and data[:len(rq['expected'])] == bytes(rq['expected']):
                    if best is None or len(rq['expected']) > len(reqs[best]['expected']):
                        best = i
            if best is not None:
                if abs(issue[best][0] - s.now) < EPS:
                    # issued at the very instant this packet arrives: whether the request was already registered when the
                    # packet was looked at is not determined - no verdict for this request
                    undecided.add(best)
                else:
                    dispatched[best] = s.now
        undecided = set()
        env.world.on_deliver = on_deliver
        cf = Crazyflie()
        # ---- requests issued from inside the port callback that handles the answer to an earlier request
        chained = dict((r['on_answer_of'], i) for i, r in enumerate(reqs) if r.get('on_answer_of') is not None)

        def port_handler(pk):
            data = bytes(pk.data)
            for j, i in list(chained.items()):
                rq = reqs[j]
                # (the reference model decides which pending request a packet answers: longest matching expectation)
                if j in issue and j in dispatched and (pk.port, pk.channel) == (rq['port'], rq['channel']) and data[:len(rq['expected'])] == bytes(rq['expected']):
                    del chained[j]
                    r = reqs[i]
                    npk = CRTPPacket()
                    npk.set_header(r['port'], r['channel'])
                    npk.data = bytes(r['data'])
                    issue[i] = (s.now, len(sessions) - 1 if cf.link is not None else None)
                    cf.send_packet(npk, expected_reply=tuple(r['expected']), timeout=r['timeout'])
        for prt in (2, 4, 5, 13):
            cf.add_port_callback(prt, port_handler)
        # an application that connects again from inside the notification of the failure (auto-reconnect)
        auto = {'armed': False, 'reopened': False}

        def on_failure(*a):
            if auto['armed']:
                auto['armed'] = False
                sessions[-1][1] = s.now
                net.fault = None
                cf.open_link('sim://1')
                sessions.append([s.now, None])
                auto['reopened'] = True
        cf.connection_failed.add_callback(on_failure)
        cf.connection_lost.add_callback(on_failure)
        # ---- timeline: merge requests / unrelated / events by time
        timeline = []
        for i, r in enumerate(reqs):
            timeline.append((r['t'], 0, 'req', i))
        for u in case['unrelated']:
            timeline.append((u['t'], 1, 'unrelated', u))
        for e in case['events']:
            timeline.append((e['t'], 2, e['kind'], e))
        timeline.sort(key=lambda x: (x[0], x[1]))
        sessions = []       # (open time, close time or None)
        concurrent = [False]
        try:
            cf.open_link('sim://1')
            sessions.append([s.now, None])
            for t, _, kind, arg in timeline:
                if t > s.now:
                    s.sleep(t - s.now)
                link_open = cf.link is not None
                if kind == 'req':
                    r = reqs[arg]
                    if r.get('on_answer_of') is not None:
                        continue    # issued by the port callback, not by the time line
                    if r.get('after') is not None and not (r['after'] in dispatched and dispatched[r['after']] < s.now - EPS):
                        continue    # only meaningful once the earlier request with the same expectation has been answered (at an earlier instant)

                    def do_send(arg=arg, r=r):
                        pk = CRTPPacket()
                        pk.set_header(r['port'], r['channel'])
                        pk.data = bytes(r['data'])
                        issue[arg] = (s.now, len(sessions) - 1 if cf.link is not None else None)
                        try:
                            cf.send_packet(pk, expected_reply=tuple(r['expected']), timeout=r['timeout'])
                        except OSError as e:
                            if 'injected' not in str(e):
                                raise
                            # the transport failed in this caller's face (it happened to make the first send on the broken link):
                            # the application sees the exception, the request was never made
                            issue[arg] = (s.now, None)
                            out.feat('send-raised-in-a-user-thread')
                    if r.get('thread'):
                        # issued from another user thread: may interleave with a close/reopen at the same instant
                        s.spawn(do_send, 'sender%d' % arg)
                        concurrent[0] = True
                    else:
                        do_send()
                elif kind == 'unrelated' and link_open and env.world.links:
                    env.world.links[-1].deliver((arg['port'], arg['channel'], bytes(arg['data'])), delay=0.0)
                elif kind == 'close' and link_open:
                    cf.close_link()
                    sessions[-1][1] = s.now
                elif kind == 'linkerror' and link_open:
                    if arg.get('reopen_in_cb'):
                        auto['armed'] = True
                    net.fault = {'k': 0, 'reporter': 'driver', 'session': len(env.world.links) - 1}
                    env.world.fault_fired = False
                    env.world.links[-1]._fault_event.set()
                    s.sleep(0.0)
                    s.yield_point()
                    t_err = s.now
                    # the error is processed by the driver thread; wait until the link is gone (bounded)
                    for _ in range(50):
                        if cf.link is None or auto['reopened']:
                            break
                        s.sleep(0.0001)
                    if auto['reopened']:
                        auto['reopened'] = False
                    else:
                        sessions[-1][1] = t_err
                elif kind == 'reopen' and not link_open and not any(e.get('reopen_in_cb') for e in case['events']):
                    net.fault = None
                    # (not combined with a request made by another thread at the same instant: that one could be the first to send)
                    raises = bool(arg.get('send_raises')) and not any(r_.get('thread') for r_ in reqs)
                    if raises:
                        # the very first transmission of the new link fails in the caller's face: the attempt is over at once
                        net.fault = {'k': 0, 'reporter': 'raise', 'session': len(env.world.links)}
                        env.world.fault_fired = False
                    cf.open_link('sim://1')
                    sessions.append([s.now, s.now if raises else None])
                    if raises:
                        net.fault = None
                        if cf.link is not None:
                            out.fail('retry:link-kept-after-failed-open', 'open_link failed (transport error on the first send) but Crazyflie.link is still set')
            s.sleep(case['tail'])
            t_end = s.now
            if cf.link is not None:
                cf.close_link()
                sessions[-1][1] = s.now
            s.sleep(2.5)
        except (Deadlock, Horizon) as e:
            out.fail('retry:hang', repr(e)[:300])
            return out
        if s.deaths:
            out.fail('retry:thread-died:' + s.deaths[0][1][:60], s.deaths[0][2][-500:])
        alive = [t for t in s.threads if t.name.startswith('timer') and t.state != 'DONE']
        if alive:
            out.fail('retry:timer-alive-after-close', '%d retry timer(s) still pending 2.5 s after the last close' % len(alive))
        desc = 'resending=%r requests=%r events=%r' % (case['needs_resending'], [(r['t'], r['port'], r['channel'], bytes(r['data']).hex(), r['expected'], r['timeout'], r['reply']) for r in reqs],
                                                       [(e['t'], e['kind']) for e in case['events']])
        # ---- transmissions per request, per session
        for i, r in enumerate(reqs):
            if i not in issue or i in undecided:
                continue
            t0, sess = issue[i]
            tx = []
            for si, lnk in enumerate(env.world.links):
                for (tt, port, ch, data, closed) in lnk.tx:
                    if (port, ch, data) == (r['port'], r['channel'], bytes(r['data'])):
                        tx.append((tt, si, closed))
            if r.get('thread') and tx:
                sess = tx[0][1]      # issued at the instant of a close/reopen: its session is the one that first carried it
            elif tx and any(ts_ - EPS <= t0 <= ts_ + d_ + EPS for ts_, d_, _n in s.stall_log):
                sess = tx[0][1]      # issued while a thread was held up (possibly inside the handling of a link error): same rule
            if sess is None:
                if tx:
                    out.fail('retry:sent-while-closed', '%s: request %d issued with no link open was transmitted %r' % (desc, i, tx))
                continue
            # a send entered at the very instant of the close is concurrent with it: accepted either way
            # (a thread held up inside send_packet widens that window by the time it was held up)
            held = sum(d for _, d, _n in s.stall_log)
            if any(c and not (sessions[si][1] is not None and tt <= sessions[si][1] + EPS + held) for tt, si, c in tx):
                out.fail('retry:sent-on-closed-link', '%s: request %d transmitted on a closed link: %r' % (desc, i, tx))
            if any(si != sess for tt, si, c in tx):
                out.fail('retry:crosses-sessions', '%s: request %d issued in session %d transmitted in session(s) %r at %r' % (
                    desc, i, sess, sorted(set(si for tt, si, c in tx)), [round(tt, 4) for tt, si, c in tx if si != sess]))
                continue
            times = [tt for tt, si, c in tx]
            t_close = sessions[sess][1] if sessions[sess][1] is not None else t_end
            if r.get('thread'):
                # issued concurrently with the close: it may or may not have made it onto the link, but nothing after the close
                late = [x for x in times if x > t_close + EPS + held]
                if late:
                    out.fail('retry:unexpected-transmission:after-close', '%s: request %d (issued by another thread at the close instant %.4f) transmitted at %r' % (
                        desc, i, t_close, [round(x, 4) for x in times]))
                continue
            t_ans = dispatched.get(i)
            stop = min(x for x in (t_close, t_ans if t_ans is not None else 1e18))
            if not case['needs_resending'] or not r['expected']:
                if not times and t0 >= t_close - EPS:
                    continue    # issued (from the dispatcher's callback) at the very instant the link went down
                if len(times) != 1:
                    out.fail('retry:reliable-link-retransmits' if not case['needs_resending'] else 'retry:no-expectation-retransmits',
                             '%s: request %d transmitted at %r' % (desc, i, [round(x, 4) for x in times]))
                continue
            T = r['timeout']
            if s.stall_log:
                # some thread was held up for a while (possibly inside send_packet, holding the send lock): exact instants
                # are no longer determined, what remains is that the request keeps being retransmitted until it is answered
                # or the link closes, and never afterwards
                slack = sum(d for _, d, _n in s.stall_log) + T + 1e-6
                late = [x for x in times if x > stop + slack - T]
                if late and t_ans is not None and any(x > t_ans + slack - T for x in late):
                    out.fail('retry:unexpected-transmission:after-answer', '%s: request %d answered %.4f transmitted at %r (stalls %r)' % (
                        desc, i, t_ans, [round(x, 4) for x in times], s.stall_log))
                elif any(x > t_close + EPS + held for x in times):
                    out.fail('retry:unexpected-transmission:after-close', '%s: request %d link closed %.4f transmitted at %r (stalls %r)' % (
                        desc, i, t_close, [round(x, 4) for x in times], s.stall_log))
                elif times:
                    marks = sorted(times) + [stop]
                    gaps = [b - a for a, b in zip(marks, marks[1:])]
                    if max(gaps) > slack:
                        out.fail('retry:missing-retransmission', '%s: request %d (timeout %.1f, issued %.4f, answered %s, link closed %.4f) transmitted at %r with '
                                 'threads held up at %r: no transmission for %.3f s' % (desc, i, T, t0, None if t_ans is None else round(t_ans, 4), t_close,
                                                                                         [round(x, 4) for x in times], s.stall_log, max(gaps)))
                elif stop - t0 > slack:
                    out.fail('retry:missing-retransmission', '%s: request %d never transmitted (stalls %r)' % (desc, i, s.stall_log))
                continue
            want = []
            n = 0
            ambiguous = []
            while t0 + n * T < stop - EPS:
                want.append(t0 + n * T)
                n += 1
            if abs((t0 + n * T) - stop) <= EPS:
                ambiguous.append(t0 + n * T)
                race = True
            extra = [x for x in times if not any(abs(x - w) < 1e-6 for w in want + ambiguous)]
            missing = [w for w in want if not any(abs(x - w) < 1e-6 for x in times)]
            if extra:
                kind = 'after-answer' if t_ans is not None and any(x > t_ans + EPS for x in extra) else 'after-close' if any(x > t_close + EPS for x in extra) else 'wrong-interval'
                out.fail('retry:unexpected-transmission:' + kind, '%s: request %d (timeout %.1f, issued %.4f, answered %s, link closed %.4f) transmitted at %r, expected %r' % (
                    desc, i, T, t0, None if t_ans is None else round(t_ans, 4), t_close, [round(x, 4) for x in times], [round(x, 4) for x in want]))
            elif missing:
                out.fail('retry:missing-retransmission', '%s: request %d (timeout %.1f, issued %.4f, answered %s, link closed %.4f) transmitted at %r, expected %r' % (
                    desc, i, T, t0, None if t_ans is None else round(t_ans, 4), t_close, [round(x, 4) for x in times], [round(x, 4) for x in want]))
    shared = any(tuple(a['expected'][:len(b['expected'])]) == tuple(b['expected']) and (a['port'], a['channel']) == (b['port'], b['channel'])
                 for a in reqs for b in reqs if a is not b and a['expected'] and b['expected'])
    reopen_race = any(e['kind'] == 'reopen' for e in case['events'])
    out.nontrivial = race or shared or reopen_race
    out.feat('thread-held-up' if s.stall_log else 'no-stall', 'race-with-timer' if race else 'no-race', 'shared-prefix' if shared else 'distinct-prefixes', 'reopen' if reopen_race else 'single-session',
             'resending' if case['needs_resending'] else 'reliable')
    return out


_sched = st.fixed_dictionaries({'prefix': st.lists(st.integers(0, 3), max_size=20), 'seed': st.integers(0, 10 ** 6), 'rate': st.sampled_from([0.0, 0.0, 0.1, 0.4])})


@st.composite
def retry_case(draw):
    n = draw(st.integers(1, 5))
    port = draw(st.sampled_from([2, 4, 5]))
    channel = draw(st.integers(0, 3))
    reqs = []
    used = set()
    for i in range(n):
        same = draw(st.booleans())
        p, c = (port, channel) if same else (draw(st.sampled_from([2, 4, 5, 13])), draw(st.integers(0, 3)))
        elen = draw(st.sampled_from([0, 1, 1, 2, 2, 3]))
        expected = [draw(st.sampled_from([1, 2, 2, 5])) for _ in range(elen)]
        if (p, c, tuple(expected)) in used:
            expected = expected + [10 + i]
        used.add((p, c, tuple(expected)))
        data = expected + [0x40 + i, i]
        T = draw(st.sampled_from([0.2, 0.2, 1.0]))
        reply = None
        if draw(st.sampled_from([True, True, True, False])):
            lost = draw(st.integers(0, 3))
            delay = draw(st.sampled_from([0.001, 0.05, T - 0.001, T, T + 0.001, 0.199, 0.2, 0.201, 0.4, 1.0, 1.2, 2 * T]))
            reply = {'lost': lost, 'delay': delay, 'tail': draw(st.sampled_from([[0xE0 + i], [0xE0 + i], []]))}
        reqs.append({'t': draw(st.sampled_from([0.0, 0.0, 0.05, 0.1, 0.3, 1.0])), 'port': p, 'channel': c, 'data': data, 'expected': expected,
                     'timeout': T, 'reply': reply})
    if draw(st.sampled_from([False, False, True])):
        # the same expectation again, shortly after an earlier request with it was answered (before that one's timeout has passed)
        # (also when that one had to be repeated before it was answered)
        quick = [r for r in reqs if r['expected'] and r['reply'] and r['reply']['lost'] <= 2 and r['reply']['delay'] <= 0.05]
        if quick:
            base = quick[draw(st.integers(0, len(quick) - 1))]
            i = len(reqs)
            reqs.append({'t': base['t'] + base['reply']['lost'] * base['timeout'] + draw(st.sampled_from([0.06, 0.1, 0.15])), 'port': base['port'], 'channel': base['channel'],
                         'data': list(base['expected']) + [0x50, i], 'expected': list(base['expected']), 'timeout': base['timeout'], 'after': reqs.index(base),
                         'reply': draw(st.sampled_from([None, {'lost': 0, 'delay': 0.3, 'tail': [0xD0]}, {'lost': 1, 'delay': 0.01, 'tail': [0xD1]}]))})
    if draw(st.sampled_from([False, False, True])):
        # the callback that handles an answer asks the same thing again (same expectation) straight away
        # (bases that are answered promptly and exactly once, and that no other added request refers to)
        answered = [r for r in reqs if r['expected'] and r['reply'] and r['reply']['lost'] == 0 and r['reply']['delay'] <= 0.05 and not r.get('after') and
                    not any(x.get('after') == k_ for k_, y in enumerate(reqs) if y is r for x in reqs)]
        if answered:
            base = answered[draw(st.integers(0, len(answered) - 1))]
            i = len(reqs)
            reqs.append({'t': base['t'], 'port': base['port'], 'channel': base['channel'], 'data': list(base['expected']) + [0x58, i], 'expected': list(base['expected']),
                         'timeout': base['timeout'], 'on_answer_of': reqs.index(base),
                         'reply': draw(st.sampled_from([None, None, {'lost': 1, 'delay': 0.01, 'tail': [0xD2]}]))})
    events = []
    mode = draw(st.sampled_from(['none', 'none', 'close', 'close-reopen', 'error-reopen', 'close-reopen']))
    if mode != 'none':
        tc = draw(st.sampled_from([0.1, 0.19, 0.2, 0.21, 0.35, 0.5, 0.95, 1.0, 1.05, 1.7, 2.5]))
        events.append({'t': tc, 'kind': 'close' if mode.startswith('close') else 'linkerror'})
        if mode == 'error-reopen' and draw(st.booleans()):
            events[-1]['reopen_in_cb'] = True
        if draw(st.booleans()):
            # a request issued by another thread at the very instant of the close
            i = len(reqs)
            reqs.append({'t': tc, 'port': port, 'channel': channel, 'data': [8, 0x60, i], 'expected': [8], 'timeout': draw(st.sampled_from([0.2, 1.0])),
                         'reply': None, 'thread': True})
        if mode.endswith('reopen'):
            events.append({'t': tc + draw(st.sampled_from([0.0, 0.01, 0.05, 0.15, 0.25, 0.9])), 'kind': 'reopen',
                           'send_raises': draw(st.sampled_from([False, False, False, True]))})
            if draw(st.booleans()):
                i = len(reqs)
                withexp = [r for r in reqs if r['expected'] and not r.get('thread') and r['t'] < tc]
                if withexp and draw(st.booleans()):
                    # the new session asks again for what a request of the previous session was still waiting for
                    base = withexp[draw(st.integers(0, len(withexp) - 1))]
                    reqs.append({'t': events[-1]['t'] + draw(st.sampled_from([0.0, 0.02])), 'port': base['port'], 'channel': base['channel'],
                                 'data': list(base['expected']) + [0x70, i], 'expected': list(base['expected']), 'timeout': 0.2,
                                 'reply': {'lost': 1, 'delay': 0.01, 'tail': [0xF0]}})
                else:
                    reqs.append({'t': events[-1]['t'] + 0.02, 'port': port, 'channel': channel, 'data': [9, 0x70, i], 'expected': [9], 'timeout': 0.2,
                                 'reply': {'lost': 1, 'delay': 0.01, 'tail': [0xF0]}})
    unrelated = draw(st.lists(st.fixed_dictionaries({'t': st.sampled_from([0.05, 0.15, 0.25, 0.6, 1.1]), 'port': st.sampled_from([2, 4, 5, 0]),
                                                     'channel': st.integers(0, 3), 'data': st.lists(st.sampled_from([1, 2, 5, 7]), min_size=1, max_size=3)}), max_size=3))
    sched = draw(_sched)
    if draw(st.sampled_from([False, False, False, True])):
        # a thread held up at the start of another thread (e.g. between Timer.start() and the next statement) for longer than a timeout
        sched['stalls'] = [{'kind': 'start', 'at': draw(st.integers(1, 10)), 'd': draw(st.sampled_from([0.05, 0.25, 0.25, 0.45, 1.1]))}]
    return {'needs_resending': draw(st.sampled_from([True, True, True, False])), 'requests': reqs, 'events': events, 'unrelated': unrelated,
            'tail': draw(st.sampled_from([0.5, 1.3, 2.6])), 'schedule': sched}


def directed_cases(tier):
    """(a) a request that needed 0..3 repetitions is answered and the same thing is asked again before another timeout has passed;
    (b) a link error with a request pending, the application opens the link again from inside the notification"""
    for lost in (0, 1, 2, 3):
        for T in (0.2, 1.0):
            for gap in (0.06, 0.1, 0.15):
                for second in (None, {'lost': 0, 'delay': 0.3, 'tail': [0xD0]}, {'lost': 1, 'delay': 0.01, 'tail': [0xD1]}):
                    base = {'t': 0.0, 'port': 2, 'channel': 1, 'data': [1, 5, 0x40, 0], 'expected': [1, 5], 'timeout': T,
                            'reply': {'lost': lost, 'delay': 0.01, 'tail': [0xE0]}}
                    again = {'t': lost * T + gap, 'port': 2, 'channel': 1, 'data': [1, 5, 0x50, 1], 'expected': [1, 5], 'timeout': T, 'after': 0, 'reply': second}
                    yield {'needs_resending': True, 'requests': [base, again], 'events': [], 'unrelated': [], 'tail': 2.6,
                           'schedule': {'prefix': [], 'seed': lost, 'rate': 0.0}}
    for t_req in (0.0, 0.05):
        for T in (0.2, 1.0):
            for dt in (-0.1, -0.01, 0.0, 0.01):       # the error arrives around the moment the pending request is due again
                for reopen_delay in (0.0, 0.05):
                    for seed, rate in ((1, 0.0), (2, 0.3), (3, 0.3), (4, 0.6), (5, 0.6), (6, 0.9)):
                        tc = round(t_req + T + dt, 4)
                        pend = {'t': t_req, 'port': 2, 'channel': 1, 'data': [1, 5, 0x40, 0], 'expected': [1, 5], 'timeout': T, 'reply': None}
                        later = {'t': tc + reopen_delay + 0.02, 'port': 2, 'channel': 1, 'data': [9, 0x70, 1], 'expected': [9], 'timeout': 0.2,
                                 'reply': {'lost': 1, 'delay': 0.01, 'tail': [0xF0]}}
                        yield {'needs_resending': True, 'requests': [pend, later],
                               'events': [{'t': tc, 'kind': 'linkerror', 'reopen_in_cb': True}, {'t': tc + reopen_delay, 'kind': 'reopen', 'send_raises': False}],
                               'unrelated': [], 'tail': 2.6, 'schedule': {'prefix': [], 'seed': seed, 'rate': rate}}


# ---------------------------------------------------------------- driver level: nothing reaches the device through a closed USB link
def run_usb(case):
    """Real UsbDriver on a fake CfUsb (the USB side only). Script of connect / send / close (possibly failing half way) / send."""
    import time
    import cflib.crtp.usbdriver as ud
    from cflib.crtp.crtpstack import CRTPPacket
    out = Outcome()
    world = {'devices': []}

    class FakeCfUsb:
        def __init__(self, devid=0):
            self.dev = object()
            self.sent = []
            self.closed = False
            self.crtp = None
            self.fault = None
            world['devices'].append(self)

        def set_crtp_to_usb(self, flag):
            if self.fault == 'set_crtp' and not flag:
                raise IOError('injected: device unplugged')
            self.crtp = flag

        def close(self):
            if self.fault == 'close':
                raise IOError('injected: device unplugged')
            self.closed = True

        def send_packet(self, data):
            self.sent.append((time.time(), tuple(data)))

        def receive_packet(self):
            time.sleep(0.0005)
            return ()

        def get_serials(self):
            return []
    saved = ud.CfUsb
    ud.CfUsb = FakeCfUsb
    drv = ud.UsbDriver()
    is_open = False
    seq = 0
    expected = []       # per device: packets sent while the link was open
    after_close = []
    try:
        for step in case['steps']:
            k = step['op']
            if k == 'connect' and not is_open:
                try:
                    drv.connect('usb://0', None, lambda m: None)
                except Exception as e:  # noqa
                    out.fail('usb:reconnect-refused', 'steps %r: %r' % (case['steps'], e))
                    break
                is_open = True
                expected.append([])
                world['devices'][-1].fault = None
            elif k == 'send':
                pk = CRTPPacket()
                pk.set_header(seq % 15, seq % 4)
                pk.data = bytes([seq & 0xff, 0x42])
                n_before = [len(d.sent) for d in world['devices']]
                drv.send_packet(pk)
                wire = (pk.header,) + tuple(pk.data)
                got = [len(d.sent) - n for d, n in zip(world['devices'], n_before)]
                if is_open:
                    expected[-1].append(wire)
                elif any(got):
                    after_close.append(wire)
                seq += 1
            elif k == 'close' and is_open:
                world['devices'][-1].fault = step.get('fault')
                drv.close()
                is_open = False
        if is_open:
            drv.close()
    finally:
        ud.CfUsb = saved
        th = getattr(drv, '_thread', None)
        if th is not None:
            th.sp = True
    desc = 'steps %r' % [(s_['op'], s_.get('fault')) for s_ in case['steps']]
    if after_close:
        out.fail('usb:sent-on-closed-link', '%s: packets %r reached the device after close() had returned' % (desc, after_close[:3]))
    for d, want in zip(world['devices'], expected):
        got = [w for t, w in d.sent]
        if got[:len(want)] != want:
            out.fail('usb:send-order-or-loss', '%s: device got %r, sent while open %r' % (desc, got[:6], want[:6]))
    faults = [s_.get('fault') for s_ in case['steps'] if s_['op'] == 'close' and s_.get('fault')]
    out.nontrivial = bool(faults) and any(s_['op'] == 'send' for s_ in case['steps'])
    out.feat('usb-driver', 'close-fault' if faults else 'clean-close')
    return out


_usb_step = st.one_of(st.just({'op': 'send'}), st.just({'op': 'send'}), st.just({'op': 'connect'}),
                      st.sampled_from([None, None, 'set_crtp', 'close']).map(lambda f: {'op': 'close', 'fault': f}))
usb_case = st.fixed_dictionaries({'steps': st.lists(_usb_step, min_size=1, max_size=10).map(lambda l: [{'op': 'connect'}] + l)})


def subchecks(tier):
    return [Sub('timelines', run_retry, strategy=retry_case(), examples={'quick': 2000, 'thorough': 60000}),
            Sub('directed', run_retry, cases=directed_cases, distinct_by_construction=True),
            Sub('usb-driver', run_usb, strategy=usb_case, examples={'quick': 300, 'thorough': 6000})]
