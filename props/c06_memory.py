"""C06: memory reads/writes exact, complete, ordered, exactly-one notification, never wedged."""
import struct

from hypothesis import strategies as st

from vlib import cfharness
from vlib.dsched import Deadlock, Horizon
from vlib.runner import Outcome, Sub
from vlib.simcf import Net, SimEnv

PROPERTY = 'C06'
LEVEL = 'exploration'
SHARDS = {'quick': 4, 'thorough': 16}
WATCHDOG = {'quick': 900, 'thorough': 6 * 3600}
RULE = ('A real Crazyflie connects (virtual time, deterministic scheduler) to a simulated device with 1-3 plain memories of random '
        'content. Hypothesis draws operation histories (read(addr,len) / write(addr,data,flush_queue?) with lengths around every chunk '
        'boundary of 20-byte reads and 25-byte writes, several queued writes per memory), a reply policy (per-reply delay incl. beyond the '
        '1 s retry, duplicated replies, error statuses), an optional link drop after the k-th exchanged packet (from the driver thread or '
        'the sending thread), whether the link needs resending, and a thread schedule. Oracle: dict-backed memory image model + exactly-one '
        'notification bookkeeping + message-size limits + submission-order completion + a probe read/write on every memory afterwards. '
        'Non-trivial = a transfer longer than one chunk combined with a duplicate, an error status, a delayed reply or a link drop. Enumerated '
        'next to the random histories: a link drop after every k-th packet, the k-th chunk refused (with and without a retry from the failure '
        'notification), every reply duplicated at every phase of the next transfer, writes flushed behind a write on the air, a write chained '
        'from the completion notification, thousands-of-bytes writes with progress reports, single forced preemptions.')
ASSUMPTIONS = ['reads and writes on the SAME memory are not overlapped in time (what a read returns would be schedule dependent); different '
               'memories run concurrently', 'a duplicated reply is suppressed if the device has meanwhile received a newer request with the '
               'same channel/id/address (byte-identical replies are ambiguous on the wire); suppressed duplicates are counted',
               'virtual time: computation is instantaneous, timers exact; switch points at synchronisation operations and link I/O']

MEM_TYPE = 0x30   # unknown type id -> base MemoryElement, only Memory itself is exercised
H = 8.0


# status bytes of a refused chunk: any non-zero value (the firmware's codes are errno-like, but the byte is the device's to choose)
_ERR_STATUS = [5, 200, 41, 1, 255, 58, 133, 22, 12, 2, 254]


def _data(n, seed):
    return bytes(((i * 37 + seed * 11 + (i >> 3)) & 0xff) for i in range(n))


def run_mem(case):
    out = Outcome()
    sizes = case['sizes']
    mems = [({'type': MEM_TYPE, 'size': 0xFFFFFFFF, 'sparse': True} if sz == 'huge' else
             {'type': MEM_TYPE, 'size': sz, 'data': _data(sz, 100 + k).hex()}) for k, sz in enumerate(sizes)]
    sizes = [0xFFFFFFFF if sz == 'huge' else sz for sz in sizes]
    spec = cfharness.small_spec(1, 1, mems=mems)
    net = Net(needs_resending=case['needs_resending'])
    pol = case['policy']
    multi = False
    stress = False
    with SimEnv(spec, net, case.get('schedule'), horizon=60.0) as env:
        s = env.s
        cf, rec = cfharness.make_cf(env)
        try:
            ok = cfharness.connect(env, cf, rec, wait_for='fully_connected')
        except (Deadlock, Horizon) as e:
            out.fail('mem:connect-hang', repr(e)[:300])
            return out
        if not ok:
            out.fail('mem:connect', 'handshake did not finish: %r' % rec.names())
            return out
        link = env.world.links[0]
        dev = env.device
        if case.get('prefix_after_connect') is not None:
            # systematic single preemptions: the k-th scheduling decision after the handshake goes to another thread
            s.prefix = list(case['prefix_after_connect'])
            s.ci = 0
        written = [dict() for _ in dev.mem.mems]      # model overlay: addr -> byte for successful writes
        uncertain = [set() for _ in dev.mem.mems]
        initial = [(lambda a, m=m: m.peek(a, 1)[0]) for m in dev.mem.mems]
        init_dense = [bytes(m.data) for m in dev.mem.mems]
        notes = []   # (kind, mem id, addr, data)

        def attach():
            cf.mem.mem_read_cb.add_callback(lambda m, a, d: notes.append(('read-ok', m.id, a, bytes(d))))
            cf.mem.mem_read_failed_cb.add_callback(lambda m, a, d: notes.append(('read-fail', m.id, a, bytes(d))))
            cf.mem.mem_write_cb.add_callback(lambda m, a: notes.append(('write-ok', m.id, a, None)))
            cf.mem.mem_write_failed_cb.add_callback(lambda m, a: notes.append(('write-fail', m.id, a, None)))
            if case.get('retry_on_fail'):
                # an application that tries again from inside the failure notification (once)
                def retry(m, a):
                    if not retried:
                        retried.append((m.id, a))
                        late_ = bool(env.world.fault_fired) or cf.link is None
                        acc_ = cf.mem.write(m, a, b'\x07\x08')
                        issued.append({'op': 'write', 'mem': m.id, 'addr': a, 'len': 2, 'data': b'\x07\x08', 'accepted': acc_ is not False, 'unordered': True,
                                       'maybe_superseded': late_ or any(o_.get('flush') for o_ in case['ops'])})
                cf.mem.mem_write_failed_cb.add_callback(retry)

                def retry_read(m, a, d):
                    # the failed read is over when its failure is reported: the same memory can be read again from inside the notification
                    if not retried_r and not env.world.fault_fired and cf.link is not None:
                        retried_r.append((m.id, a))
                        ln_ = max(1, min(4, sizes[m.id] - a)) if a < sizes[m.id] else 4
                        acc = cf.mem.read(m, a, ln_)
                        out.feat('read-again-from-failure-notification')
                        if not acc:
                            out.fail('mem:retry-refused', 'read(mem %d, %d, %d) issued from inside the failure notification of the previous read of that memory was refused' % (m.id, a, ln_))
                        issued.append({'op': 'read', 'mem': m.id, 'addr': a, 'len': ln_, 'accepted': bool(acc), 'snapshot': dev.mem.mems[m.id].peek(a, ln_),
                                       'maybe_superseded': False})
                cf.mem.mem_read_failed_cb.add_callback(retry_read)
            if case.get('chain_on_ok'):
                # an application that writes the next block from inside the completion notification of the previous one
                def chain(m, a):
                    if not chained and not env.world.fault_fired and cf.link is not None and sizes[m.id] >= 128:
                        chained.append((m.id, a))
                        ln_ = case['chain_on_ok']
                        a2 = (a + 61) % (min(sizes[m.id], 4096) - ln_)
                        data = _data(ln_, 9)
                        acc_ = cf.mem.write(m, a2, data)
                        out.feat('write-from-completion-notification')
                        issued.append({'op': 'write', 'mem': m.id, 'addr': a2, 'len': ln_, 'data': data, 'accepted': acc_ is not False, 'unordered': True,
                                       'maybe_superseded': any(o_.get('flush') for o_ in case['ops'])})
                cf.mem.mem_write_cb.add_callback(chain)
        chained = []
        retried = []
        retried_r = []
        attach()
        # ---- reply policy for the memory port
        memrep = {'n': 0}
        last_req = {}

        def filt(lnk, req, reps):
            port, ch, data = req
            res = []
            if port != 4 or ch == 0:
                return [(r, None, None) for r in reps]
            key = (ch, data[0], bytes(data[1:5]))
            last_req[key] = last_req.get(key, 0) + 1
            gen = last_req[key]
            for r in reps:
                j = memrep['n']
                memrep['n'] += 1
                delay = pol['delays'][j % len(pol['delays'])] if pol['delays'] else None
                if j in pol['errors']:
                    # the device refuses this chunk: undo the effect of a write and report a status
                    rp, rc, rd = r
                    if ch == 2:
                        mid, addr = data[0], struct.unpack('<I', data[1:5])[0]
                        body = data[5:]
                        dev.mem.mems[mid].poke(addr, pending_undo.get((mid, addr), dev.mem.mems[mid].peek(addr, len(body))))
                    r = (rp, rc, rd[:5] + bytes([_ERR_STATUS[j % len(_ERR_STATUS)]]))
                res.append((r, delay, None))
                if j in pol['dups']:
                    res.append((r, (delay or 0.001) + pol['dup_gap'], (lambda key=key, gen=gen: last_req.get(key) == gen)))
            return res
        pending_undo = {}
        orig_handle = dev.mem.handle

        def handle(port, channel, data):
            if port == 4 and channel == 2:
                mid, addr = data[0], struct.unpack('<I', data[1:5])[0]
                if mid < len(dev.mem.mems):
                    pending_undo[(mid, addr)] = dev.mem.mems[mid].peek(addr, len(data) - 5)
            return orig_handle(port, channel, data)
        dev.mem.handle = handle
        env.world.reply_filter = filt
        k0 = link.exchanged
        if case['drop'] is not None:
            net.fault = {'k': k0 + case['drop']['k'], 'reporter': case['drop']['reporter'], 'session': 0}
        # ---- issue the operations
        issued = []     # dict(op, mem, addr, len/data, accepted, superseded)
        progress_logs = []
        busy_until_quiet = {}
        t_tx0 = len(link.tx)
        try:
            for op in case['ops']:
                mid = op['mem'] % len(sizes)
                m = cf.mem.get_mem(mid)
                if m is None:
                    break
                size = sizes[mid]
                if size == 0xFFFFFFFF:
                    addr = [0x7FFFFFE0, 0x7FFFFFFF - 30, 0x80000000, 0xFFFFFF00, 0xFFFFFFFF - 130, 0x12345678, 0][op['addr'] % 7] + (op['addr'] // 7) % 9
                else:
                    addr = op['addr'] % size
                ln = min(op['len'], size - addr)
                # serialise read-vs-write on one memory
                kinds = set(i['op'] for i in issued if i['mem'] == mid and not i.get('settled'))
                overlapping = False
                undecided_overlap = False
                if op['op'] == 'read' and case.get('overlap_reads') and 'read' in kinds and 'write' not in kinds:
                    # a read issued while another read of the same memory is still in flight: it has to be refused (returns
                    # False, nothing sent for it) and the one in flight completes normally
                    overlapping = len([n for n in notes if n[1] == mid and n[0].startswith('read')]) < len(
                        [i for i in issued if i['mem'] == mid and i['op'] == 'read' and i['accepted']])
                    # ... and is known to be in flight only while its first answer cannot have arrived yet (afterwards the library
                    # may have finished it although the notification has not run yet)
                    fastest = min(pol['delays']) if pol['delays'] else 0.001
                    last_read = [i for i in issued if i['mem'] == mid and i['op'] == 'read' and i['accepted']][-1:]
                    if overlapping and not (last_read and s.now - last_read[0].get('t', -1e9) < fastest - 1e-9):
                        overlapping = False
                        undecided_overlap = True
                if overlapping:
                    pass
                elif undecided_overlap:
                    pass
                elif (op['op'] == 'read' and kinds) or (op['op'] == 'write' and 'read' in kinds):
                    if case.get('asap'):
                        # carry on the moment the earlier transfers on this memory have been notified (late duplicates of
                        # their replies may then still be on their way)
                        waited = 0.0
                        while waited < H and len([n for n in notes if n[1] == mid]) < len([i for i in issued if i['mem'] == mid and i['accepted']]):
                            s.sleep(0.0001)
                            waited += 0.0001
                    else:
                        s.sleep(H)
                    for i in issued:
                        if not case.get('asap') or i['mem'] == mid:
                            i['settled'] = True
                if cf.link is None:
                    break
                late = bool(env.world.fault_fired)    # the link error has been raised already and is being processed: no claim about this request
                if op['op'] == 'read':
                    t_call = s.now
                    snap_ = dev.mem.mems[mid].peek(addr, ln)
                    acc = cf.mem.read(m, addr, ln)
                    if overlapping:
                        out.feat('overlapping-read')
                        if acc:
                            out.fail('mem:overlapping-read-accepted', 'read(mem %d, %d, %d) was accepted while another read of that memory was in flight' % (mid, addr, ln))
                        if op['gap']:
                            s.sleep(op['gap'])
                        continue
                    late = late or bool(env.world.fault_fired)
                    issued.append({'op': 'read', 'mem': mid, 'addr': addr, 'len': ln, 'accepted': bool(acc), 'snapshot': snap_, 't': t_call,
                                   'maybe_superseded': late})
                else:
                    data = _data(ln, op['seed'])
                    if op['flush']:
                        q = [i for i in issued if i['op'] == 'write' and i['mem'] == mid and not i.get('settled')]
                        for i in q[1:]:
                            i['maybe_superseded'] = True
                    # the record is made before the call: its completion notification may run (and chain another write) before the call returns
                    rec_ = {'op': 'write', 'mem': mid, 'addr': addr, 'len': ln, 'data': data, 'accepted': True, 'maybe_superseded': late}
                    issued.append(rec_)
                    if op.get('progress'):
                        prog = []
                        progress_logs.append((mid, addr, ln, prog))
                        acc_w = cf.mem.write(m, addr, data, flush_queue=op['flush'], progress_cb=lambda msg, pct, prog=prog: prog.append(pct))
                    else:
                        acc_w = cf.mem.write(m, addr, data, flush_queue=op['flush'])
                    if acc_w is False:
                        rec_['accepted'] = False      # refused (no link any more): nothing is sent, nothing is notified
                    # a call that was still in progress when the link error was raised is like one made after it: the library
                    # had not registered the request when it failed everything that was pending
                    rec_['maybe_superseded'] = late or bool(env.world.fault_fired)
                if ln > 25 or (op['op'] == 'read' and ln > 20):
                    multi = True
                if op['gap']:
                    s.sleep(op['gap'])
            # let everything finish: every chunk of every transfer may take the slowest reply time (plus one retry period)
            nchunks = sum(1 + i['len'] // 20 for i in issued)
            s.sleep(max(H, 1.5 * nchunks * (max(pol['delays'] or [0.001]) + 0.25)))
        except (Deadlock, Horizon) as e:
            out.fail('mem:hang-during-ops', repr(e)[:400])
            return out
        dropped = env.world.fault_fired
        stress = bool(pol['dups'] or pol['errors'] or dropped or any(d and d > 0.9 for d in pol['delays']))
        out.nontrivial = (multi and stress) or any(ln_ > 2500 for (_m, _a, ln_, _p) in progress_logs)
        out.feat('multi-chunk' if multi else 'single-chunk', 'dup' if pol['dups'] else 'no-dup', 'errstatus' if pol['errors'] else 'no-err',
                 'linkdrop-%s' % case['drop']['reporter'] if dropped else 'no-drop', 'resending' if case['needs_resending'] else 'reliable',
                 'slow-replies' if any(d and d > 0.9 for d in pol['delays']) else 'fast-replies')
        if s.deaths:
            out.fail('mem:thread-died:' + s.deaths[0][1][:60], s.deaths[0][2][-600:])
        desc = 'sizes %r ops %r policy %r drop %r resending %r' % (sizes, [(o['op'], o['mem'] % len(sizes), o['addr'], o['len'], o.get('flush'), o['gap']) for o in case['ops']],
                                                                   pol, case['drop'], case['needs_resending'])
        # ---- message limits
        for t, port, ch, data, closed in link.tx[t_tx0:]:
            if port == 4 and ch == 1 and (len(data) != 6 or data[5] > 24):
                out.fail('mem:read-request-size', 'read request %s' % data.hex())
            if port == 4 and ch == 2 and (len(data) > 30 or len(data) < 5):
                out.fail('mem:write-request-size', 'write request of %d bytes' % len(data))
        # natural duplicates (answers to the library's own resends) of a write ack are byte-identical to the ack of a later
        # write chunk at the same address of the same memory: such memories are excluded (wire ambiguity)
        natural_dup = case['needs_resending'] and any(d and d > 0.9 for d in pol['delays'])
        ambiguous_mems = set()
        if natural_dup or pol['dups']:
            for mid_ in range(len(sizes)):
                chunks = []
                for i in issued:
                    if i['op'] == 'write' and i['mem'] == mid_:
                        chunks.append(set(range(i['addr'], i['addr'] + max(1, i['len']), 25)))
                if any(chunks[a_] & chunks[b_] for a_ in range(len(chunks)) for b_ in range(a_ + 1, len(chunks))):
                    ambiguous_mems.add(mid_)
        if ambiguous_mems:
            out.feat('excluded-ambiguous-duplicate-ack')
            issued = [i for i in issued if i['mem'] not in ambiguous_mems]
            notes = [n for n in notes if n[1] not in ambiguous_mems]
        # ---- notifications: exactly one per accepted, non-superseded request
        groups = {}
        for i in issued:
            if i['accepted']:
                groups.setdefault((i['op'], i['mem'], i['addr']), []).append(i)
        pool = list(notes)
        for (kind, mid_, addr_), reqs in groups.items():
            mine = [n for n in pool if n[0].startswith(kind) and n[1] == mid_ and n[2] == addr_]
            for n in mine:
                pool.remove(n)
            required = [i for i in reqs if not i.get('maybe_superseded')]
            optional = [i for i in reqs if i.get('maybe_superseded')]
            if len(mine) < len(required):
                out.fail('mem:%s:no-notification%s' % (kind, ':after-drop' if dropped else ''), '%s: %d request(s) %s(mem %d, addr %d) got %d notification(s); all notes %r' % (
                    desc, len(required), kind, mid_, addr_, len(mine), [(n[0], n[1], n[2]) for n in notes]))
            elif len(mine) > len(required) + len(optional):
                out.fail('mem:extra-notification', '%s: %d notifications for %d request(s) %s(mem %d, addr %d)' % (desc, len(mine), len(reqs), kind, mid_, addr_))
            if optional or len(mine) != len(required):
                for i in reqs:
                    i['ambiguous'] = True
            else:
                for i, n in zip(required, mine):
                    i['result'] = n[0]
                    i['note'] = n
        if pool:
            out.fail('mem:extra-notification', '%s: unmatched notifications %r' % (desc, [(n[0], n[1], n[2]) for n in pool]))
        if not pol['errors'] and not dropped:
            bad = [n for n in notes if n[0].endswith('-fail')]
            if bad:
                out.fail('mem:spurious-failure:%s' % bad[0][0], '%s: no error status was injected and the link stayed up, but %r was reported' % (desc, [(n[0], n[1], n[2]) for n in bad]))
        # ---- progress reports of writes: percentages, never decreasing, ending at 100 when the write succeeded
        for (mid_, addr_, ln_, prog) in progress_logs:
            if any(b < a for a, b in zip(prog, prog[1:])) or any(not (0 <= x <= 100) for x in prog):
                out.fail('mem:write-progress', '%s: write(mem %d, %d bytes) reported progress %r' % (desc, mid_, ln_, prog[:20]))
            ok_ = [i for i in issued if i['op'] == 'write' and i['mem'] == mid_ and i['addr'] == addr_ and i.get('result') == 'write-ok']
            if ok_ and ln_ > 0 and (not prog or prog[-1] != 100) and not dropped and not pol['errors']:
                out.fail('mem:write-progress', '%s: write(mem %d, %d bytes) succeeded, last progress report %r' % (desc, mid_, ln_, prog[-3:]))
        # ---- read data
        ambiguous_reads = set()
        if natural_dup:     # (explicitly injected duplicates are suppressed at delivery time once they have become ambiguous)
            # an answer to a resent read request is byte-identical in its header to the answer a later read of the same memory
            # expects for the same chunk address (the reply does not carry the requested length): such memories are not judged
            for mid_ in range(len(sizes)):
                chunks = [set(range(i['addr'], i['addr'] + max(1, i['len']), 20)) for i in issued if i['op'] == 'read' and i['mem'] == mid_]
                if any(chunks[a_] & chunks[b_] for a_ in range(len(chunks)) for b_ in range(a_ + 1, len(chunks))):
                    ambiguous_reads.add(mid_)
            if ambiguous_reads:
                out.feat('excluded-ambiguous-duplicate-read-reply')
        for i in issued:
            if i['op'] == 'read' and i.get('result') == 'read-ok' and i['mem'] not in ambiguous_reads:
                want = i['snapshot']
                if i['note'][3] != want:
                    out.fail('mem:read-data', '%s: read(%d,%d,%d) returned %s, device holds %s' % (desc, i['mem'], i['addr'], i['len'], i['note'][3].hex(), want.hex()))
        # ---- write effect and order
        for mid in range(len(sizes)):
            if mid in ambiguous_mems:
                continue
            ws = [i for i in issued if i['op'] == 'write' and i['mem'] == mid and i['accepted']]
            # (a write made from inside a notification is concurrent with what the application thread submits at that moment: its place
            # in the queue relative to those is not determined)
            amb = any(i.get('ambiguous') or i.get('maybe_superseded') or i.get('unordered') for i in ws)
            order = [n[2] for n in notes if n[0].startswith('write') and n[1] == mid]
            if not dropped and not amb and [w['addr'] for w in ws] != order:
                out.fail('mem:write-order', '%s: memory %d writes completed in order %r, submitted %r' % (desc, mid, order, [w['addr'] for w in ws]))
            for w in ws:
                rng = range(w['addr'], w['addr'] + w['len'])
                if w.get('result') == 'write-ok':
                    for k, x in enumerate(rng):
                        written[mid][x] = w['data'][k]
                        uncertain[mid].discard(x)
                else:
                    uncertain[mid].update(rng)
            for u in ws:
                if u.get('unordered'):
                    for w in ws:
                        if w is not u:
                            uncertain[mid].update(set(range(u['addr'], u['addr'] + u['len'])) & set(range(w['addr'], w['addr'] + w['len'])))
            m = dev.mem.mems[mid]
            touched = set(written[mid]) | uncertain[mid]
            if m.sparse:
                cells = m.cells
                stray = [a_ for a_ in cells if a_ not in touched and cells[a_] != m.content(a_)]
                if stray:
                    out.fail('mem:write-effect', '%s: memory %d address 0x%x changed but was never written' % (desc, mid, stray[0]))
                for a_, v in written[mid].items():
                    if a_ not in uncertain[mid] and cells.get(a_, m.content(a_)) != v:
                        out.fail('mem:write-effect', '%s: memory %d address 0x%x is 0x%02x, expected 0x%02x' % (desc, mid, a_, cells.get(a_, m.content(a_)), v))
                        break
            else:
                img = m.data
                for x in range(len(img)):
                    if x in uncertain[mid]:
                        continue
                    want = written[mid].get(x, init_dense[mid][x])
                    if img[x] != want:
                        out.fail('mem:write-effect', '%s: memory %d byte %d is 0x%02x, expected 0x%02x' % (desc, mid, x, img[x], want))
                        break
        # ---- afterwards: nothing left behind, still serving
        lock = getattr(cf.mem, '_write_requests_lock', None)
        if lock is not None and lock.locked():
            owner = lock.owner
            if owner is not None and (owner.state == 'DONE' or (owner.state == 'BLOCKED' and owner.wake_time is None)):
                out.fail('mem:lock-left-held', '%s: write request lock still held by %r at quiescence' % (desc, owner))
        try:
            env.world.reply_filter = None
            net.fault = None
            chained.append('probing')       # the application's chained write belongs to the history, not to the probes
            retried.append('probing')
            retried_r.append('probing')
            if cf.link is None:
                if not cfharness.connect(env, cf, rec, wait_for='fully_connected'):
                    out.fail('mem:reconnect-failed', '%s: events %r' % (desc, rec.names()))
                    return out
                attach()
            # answers of the previous session that were still on their way (the firmware knows nothing about sessions) and an
            # answer for a memory nobody asked about arrive first: they have to be ignored
            cur = env.world.links[-1]
            for mid in list(range(len(sizes))) + [len(sizes) + 3]:
                cur.deliver((4, 2, struct.pack('<BIB', mid, 25, 0)), delay=0.0005)
                cur.deliver((4, 1, struct.pack('<BIB', mid, 20, 0) + b'\x11' * 10), delay=0.0007)
            s.sleep(0.01)
            for mid in range(len(sizes)):
                m = cf.mem.get_mem(mid)
                n0 = len(notes)
                acc = cf.mem.read(m, 0, min(30, sizes[mid]))
                s.sleep(6.0)
                cf.mem.write(m, 0, b'\xA5\x5A', flush_queue=False)
                s.sleep(6.0)
                got = [n[0] for n in notes[n0:] if n[1] == mid]
                if not acc or got != ['read-ok', 'write-ok'] or dev.mem.mems[mid].peek(0, 2) != b'\xA5\x5A':
                    out.fail('mem:wedged', '%s: probe on memory %d: read accepted=%r notifications %r' % (desc, mid, acc, got))
            cf.close_link()
            s.sleep(3.0)
        except (Deadlock, Horizon) as e:
            out.fail('mem:probe-hang', '%s: %s' % (desc, repr(e)[:300]))
        if s.deaths:
            out.fail('mem:thread-died:' + s.deaths[0][1][:60], s.deaths[0][2][-600:])
    return out


_len = st.one_of(st.sampled_from([0, 1, 19, 20, 21, 24, 25, 26, 39, 40, 41, 49, 50, 51, 60, 75, 76, 100]), st.integers(0, 120))
_op = st.fixed_dictionaries({'op': st.sampled_from(['read', 'write', 'write']), 'mem': st.integers(0, 2), 'addr': st.integers(0, 300),
                             'len': _len, 'seed': st.integers(0, 50), 'flush': st.sampled_from([False, False, True]),
                             'gap': st.sampled_from([0, 0, 0, 0.0005, 0.01, 5.0]), 'progress': st.sampled_from([False, False, True])})
_sched = st.fixed_dictionaries({'prefix': st.lists(st.integers(0, 3), max_size=30), 'seed': st.integers(0, 10 ** 6),
                                'rate': st.sampled_from([0.0, 0.0, 0.05, 0.2, 0.5])})


@st.composite
def mem_case(draw):
    nm = draw(st.integers(1, 3))
    sizes = [draw(st.sampled_from([64, 128, 200, 300, 'huge'])) for _ in range(nm)]
    ops = draw(st.lists(_op, min_size=1, max_size=7))
    # the same range of the same memory transferred again straight away (a late duplicate of the first transfer then meets the second)
    for i in range(1, len(ops)):
        if draw(st.sampled_from([False, False, False, True])):
            ops[i] = dict(ops[i - 1], seed=ops[i]['seed'], gap=draw(st.sampled_from([0, 0, 0.0005])))
    resend = draw(st.booleans())
    delays = draw(st.one_of(st.just([]), st.lists(st.sampled_from([0.0, 0.001, 0.001, 0.01, 0.19, 0.21, 0.5, 1.05, 1.3] if resend else [0.0, 0.0, 0.001, 0.01, 0.5]),
                                                   min_size=1, max_size=6)))
    mode = draw(st.sampled_from(['clean', 'dups', 'errors', 'drop', 'mixed']))
    dups = draw(st.lists(st.integers(0, 12), max_size=4, unique=True)) if mode in ('dups', 'mixed') else []
    errors = draw(st.lists(st.integers(0, 12), max_size=2, unique=True)) if mode in ('errors', 'mixed') else []
    drop = None
    if mode in ('drop', 'mixed') and draw(st.booleans()) or mode == 'drop':
        drop = {'k': draw(st.integers(1, 24)), 'reporter': draw(st.sampled_from(['driver', 'sender', 'driver-quiet']))}
    return {'sizes': sizes, 'ops': ops, 'needs_resending': resend,
            'policy': {'delays': delays, 'dups': dups, 'errors': errors, 'dup_gap': draw(st.sampled_from([0.0001, 0.002, 0.3]))},
            'drop': drop, 'schedule': draw(_sched), 'asap': draw(st.booleans()), 'retry_on_fail': draw(st.sampled_from([False, False, True])), 'chain_on_ok': draw(st.sampled_from([None, None, None, 10, 26, 40, 60])),
            'overlap_reads': draw(st.sampled_from([False, False, True]))}


def drop_sweep_cases(tier):
    """link drop after every k-th exchanged packet of two fixed histories"""
    hist = [
        [{'op': 'write', 'mem': 0, 'addr': 3, 'len': 60, 'seed': 1, 'flush': False, 'gap': 0},
         {'op': 'write', 'mem': 0, 'addr': 70, 'len': 26, 'seed': 2, 'flush': False, 'gap': 0},
         {'op': 'read', 'mem': 1, 'addr': 5, 'len': 45, 'seed': 0, 'flush': False, 'gap': 0}],
        [{'op': 'read', 'mem': 0, 'addr': 0, 'len': 41, 'seed': 0, 'flush': False, 'gap': 0.0005},
         {'op': 'write', 'mem': 1, 'addr': 10, 'len': 51, 'seed': 3, 'flush': True, 'gap': 0}],
    ]
    for h in hist:
        for rep in ('driver', 'sender', 'driver-quiet'):
            for k in range(1, 18 if tier == 'quick' else 30):
                yield {'sizes': [128, 128], 'ops': h, 'needs_resending': False,
                       'policy': {'delays': [], 'dups': [], 'errors': [], 'dup_gap': 0.001}, 'drop': {'k': k, 'reporter': rep}, 'retry_on_fail': k % 2 == 0,
                       'schedule': {'prefix': [], 'seed': k, 'rate': 0.0}}


def error_sweep_cases(tier):
    """the device refuses the k-th chunk of two fixed histories; the application tries again from inside the failure notification"""
    hist = [
        [{'op': 'read', 'mem': 0, 'addr': 0, 'len': 45, 'seed': 0, 'flush': False, 'gap': 0},
         {'op': 'read', 'mem': 1, 'addr': 9, 'len': 20, 'seed': 0, 'flush': False, 'gap': 0},
         {'op': 'write', 'mem': 0, 'addr': 64, 'len': 30, 'seed': 4, 'flush': False, 'gap': 0}],
        [{'op': 'write', 'mem': 0, 'addr': 3, 'len': 60, 'seed': 1, 'flush': False, 'gap': 0},
         {'op': 'read', 'mem': 1, 'addr': 5, 'len': 61, 'seed': 0, 'flush': False, 'gap': 0.0005}],
    ]
    for h in hist:
        for k in range(0, 8):
            for retry in (True, False):
                for rate in (0.0, 0.3):
                    yield {'sizes': [128, 128], 'ops': h, 'needs_resending': False, 'policy': {'delays': [], 'dups': [], 'errors': [k], 'dup_gap': 0.001},
                           'drop': None, 'retry_on_fail': retry, 'schedule': {'prefix': [], 'seed': k, 'rate': rate}}


def error_duplicate_cases(tier):
    """the device refuses the k-th chunk and that refusal arrives twice (the copy straight behind, a little later, or - on a link that
    resends - as the answer to the retransmission of a request whose first answer took longer than the retry period): the copy meets the
    requests that follow at other addresses"""
    hist = [{'op': 'write', 'mem': 0, 'addr': 100, 'len': 50, 'seed': 1, 'flush': False, 'gap': 0},
            {'op': 'write', 'mem': 0, 'addr': 0, 'len': 30, 'seed': 2, 'flush': False, 'gap': 0},
            {'op': 'read', 'mem': 1, 'addr': 9, 'len': 30, 'seed': 0, 'flush': False, 'gap': 0},
            {'op': 'write', 'mem': 0, 'addr': 200, 'len': 10, 'seed': 3, 'flush': False, 'gap': 0}]
    for k in range(0, 6):
        for gap in (0.0001, 0.0015, 0.004):
            yield {'sizes': [256, 128], 'ops': hist, 'needs_resending': False, 'policy': {'delays': [], 'dups': [k], 'errors': [k], 'dup_gap': gap},
                   'drop': None, 'retry_on_fail': False, 'schedule': {'prefix': [], 'seed': k, 'rate': 0.0}}
        for late in (1.05, 1.3):
            yield {'sizes': [256, 128], 'ops': hist, 'needs_resending': True, 'policy': {'delays': [0.0] * k + [late] + [0.0] * 12, 'dups': [], 'errors': [k], 'dup_gap': 0.0001},
                   'drop': None, 'retry_on_fail': False, 'schedule': {'prefix': [], 'seed': k, 'rate': 0.0}}


def late_duplicate_cases(tier):
    """one range transferred twice in a row; each reply of the first transfer duplicated in turn, the copy arriving at every phase of the second"""
    for kind in ('read', 'write'):
        for length in (21, 40, 41, 60):
            nchunks = -(-length // (20 if kind == 'read' else 25))
            for j in range(nchunks):
                for gap in (0.0001, 0.0006, 0.0011, 0.0016, 0.0021, 0.0031, 0.0041):
                    for addr in (0, 7):
                        op = {'op': kind, 'mem': 0, 'addr': addr, 'len': length, 'seed': 1, 'flush': False, 'gap': 0}
                        yield {'sizes': [128], 'ops': [op, dict(op, seed=2), dict(op, seed=3, op='read')], 'needs_resending': False,
                               'policy': {'delays': [], 'dups': [j], 'errors': [], 'dup_gap': gap}, 'drop': None, 'asap': True,
                               'schedule': {'prefix': [], 'seed': j, 'rate': 0.0}}


# ---------------------------------------------------------------- deck memories (requests made through DeckMemory / DeckMemoryManager)
def run_deck_api(case):
    """Thread-free: real Memory + DeckMemoryManager on a pumped fake Crazyflie; device = sparse 32-bit deck memory."""
    from vlib.memdev import MemSpec, make_memory
    out = Outcome()
    spec = MemSpec(0x19, 0xFFFFFFFF, sparse=True)
    img = bytearray([3])
    decks = case['decks']
    for k in range(8):
        if k < len(decks):
            dk = decks[k]
            rec = struct.pack('<BBLLL18s', 0x0F, 0, 0, 0, dk['base'], ('deck%d' % k).encode())
        else:
            rec = b''
        img += rec.ljust(0x20, b'\0')
    spec.poke(0, bytes(img))
    cf, dev, mem, ok = make_memory([spec])
    if not ok or not mem.mems:
        out.fail('deck:enumeration', 'memories %r' % mem.mems)
        return out
    mgr = mem.mems[0]
    # reply faults: the k-th read/write reply after the query carries an error status
    count = {'n': None}
    orig = dev.handle

    def handle(port, channel, data):
        reps = orig(port, channel, data)
        if count['n'] is None or port != 4 or channel == 0:
            return reps
        res = []
        for (rp, rc, rd) in reps:
            j = count['n']
            count['n'] += 1
            if j in case['errors']:
                if channel == 2:
                    # the device refuses the chunk: it is not stored
                    mid, addr = struct.unpack('<BI', data[:5])
                    for x in range(addr, addr + len(data) - 5):
                        spec.cells.pop(x, None)
                rd = rd[:5] + bytes([_ERR_STATUS[j % len(_ERR_STATUS)]])
            res.append((rp, rc, rd))
        return res
    dev.handle = handle
    q = []
    mgr.query_decks(lambda d: q.append(d), lambda e: q.append(('fail', e)))
    cf.pump()
    if len(q) != 1 or not isinstance(q[0], dict) or sorted(q[0]) != list(range(len(decks))):
        out.fail('deck:query', repr(q)[:200])
        return out
    dm = q[0]
    count['n'] = 0
    faulted = False
    desc = 'decks %r ops %r errors %r' % ([hex(d['base']) for d in decks], [(o['op'], o['deck'], o['addr'], o['len'], o['fcb']) for o in case['ops']], case['errors'])

    def do(op, probe=False):
        nonlocal faulted
        d = dm[op['deck'] % len(decks)]
        base = decks[op['deck'] % len(decks)]['base']
        notes = []
        n_before = count['n']
        try:
            if op['op'] == 'read':
                d.read(op['addr'], op['len'], lambda a, data: notes.append(('ok', a, bytes(data))),
                       (lambda a: notes.append(('fail', a))) if op['fcb'] else None)
            else:
                data = _data(op['len'], op['seed'])
                d.write(op['addr'], data, lambda a: notes.append(('ok', a)), lambda a: notes.append(('fail', a)))
        except Exception as e:  # noqa
            out.fail('deck:request-refused%s' % (':after-failure' if faulted else ''), '%s: %s %r raised %r' % (desc, 'probe' if probe else 'op', op, e))
            return
        cf.pump()
        hit = any(n_before <= j < count['n'] for j in case['errors'])
        faulted = faulted or hit
        kinds = [n[0] for n in notes]
        if op['len'] == 0 and op['op'] == 'write':
            return
        if hit:
            want = ['fail'] if (op['fcb'] or op['op'] == 'write') else []
            if kinds != want:
                out.fail('deck:%s:notification-after-error' % op['op'], '%s: %r notified %r, expected %r' % (desc, op, kinds, want))
        else:
            if kinds != ['ok']:
                out.fail('deck:%s:notification' % op['op'], '%s: %r notified %r' % (desc, op, kinds))
            elif op['op'] == 'read':
                want = spec.peek(base + op['addr'], op['len'])
                if notes[0][2] != want or notes[0][1] != op['addr']:
                    out.fail('deck:read-data', '%s: %r returned (%r, %s), device holds %s' % (desc, op, notes[0][1], notes[0][2].hex(), want.hex()))
            else:
                if spec.peek(base + op['addr'], op['len']) != data:
                    out.fail('deck:write-effect', '%s: %r: device holds %s' % (desc, op, spec.peek(base + op['addr'], op['len']).hex()))
    for op in case['ops']:
        do(op)
    # afterwards every deck still serves reads and writes
    case_errors = case['errors']
    case['errors'] = []
    for k in range(len(decks)):
        do({'op': 'read', 'deck': k, 'addr': 3, 'len': 30, 'fcb': True, 'seed': 0}, probe=True)
        do({'op': 'write', 'deck': k, 'addr': 3, 'len': 30, 'fcb': True, 'seed': 9}, probe=True)
    case['errors'] = case_errors
    multi = any((o['op'] == 'read' and o['len'] > 20) or (o['op'] == 'write' and o['len'] > 25) for o in case['ops'])
    out.nontrivial = faulted or (multi and len(decks) >= 2)
    out.feat('deck-api', 'deck-fault' if faulted else 'deck-no-fault', 'decks-%d' % len(decks),
             'read-without-failure-callback' if any(o['op'] == 'read' and not o['fcb'] for o in case['ops']) else 'all-callbacks-given')
    return out


@st.composite
def deck_api_case(draw):
    n = draw(st.integers(1, 4))
    bases = draw(st.permutations([0x10000000, 0x20000000, 0x30000000, 0x40000000]))[:n]
    ops = draw(st.lists(st.fixed_dictionaries({'op': st.sampled_from(['read', 'write']), 'deck': st.integers(0, 3),
                                               'addr': st.one_of(st.integers(0, 300), st.sampled_from([0, 0x0FFFFF00])),
                                               'len': st.one_of(st.sampled_from([1, 20, 21, 25, 26, 40, 41, 50, 51, 75]), st.integers(1, 100)),
                                               'fcb': st.booleans(), 'seed': st.integers(0, 50)}), min_size=1, max_size=6))
    errors = draw(st.one_of(st.just([]), st.lists(st.integers(0, 10), min_size=1, max_size=3, unique=True)))
    return {'decks': [{'base': b} for b in bases], 'ops': ops, 'errors': errors}


def long_write_cases(tier):
    """writes of thousands of bytes with a progress callback (hundreds of chunks: several acknowledgements per percent)"""
    for ln in (2500, 2525, 2550, 2600, 3333, 5000):
        for addr in (0, 13):
            op = {'op': 'write', 'mem': 0, 'addr': addr, 'len': ln, 'seed': ln % 50, 'flush': False, 'gap': 0, 'progress': True}
            yield {'sizes': [6000], 'ops': [op, {'op': 'write', 'mem': 0, 'addr': 5500, 'len': 30, 'seed': 1, 'flush': False, 'gap': 0}], 'needs_resending': False,
                   'policy': {'delays': [], 'dups': [], 'errors': [], 'dup_gap': 0.001}, 'drop': None, 'asap': True, 'schedule': {'prefix': [], 'seed': ln, 'rate': 0.0}}


def flush_cases(tier):
    """writes queued behind one that is on the air, then a write that flushes the queue - all lengths, with and without one more write after it"""
    for la in (10, 30, 60):
        for lb in (None, 10, 40):
            for lc in (10, 26, 55):
                for more in (False, True):
                    for delay in (0.001, 0.02):
                        ops = [{'op': 'write', 'mem': 0, 'addr': 0, 'len': la, 'seed': 1, 'flush': False, 'gap': 0}]
                        if lb:
                            ops.append({'op': 'write', 'mem': 0, 'addr': 64, 'len': lb, 'seed': 2, 'flush': False, 'gap': 0})
                        ops.append({'op': 'write', 'mem': 0, 'addr': 128, 'len': lc, 'seed': 3, 'flush': True, 'gap': 0})
                        if more:
                            ops.append({'op': 'write', 'mem': 0, 'addr': 200, 'len': 12, 'seed': 4, 'flush': False, 'gap': 0})
                        yield {'sizes': [256], 'ops': ops, 'needs_resending': False, 'policy': {'delays': [delay], 'dups': [], 'errors': [], 'dup_gap': 0.001},
                               'drop': None, 'schedule': {'prefix': [], 'seed': la + lc, 'rate': 0.0}}
    # a single write, the next one issued from inside its completion notification
    for la in (10, 30):
        for chain in (10, 26, 40, 60):
            for delay in (0.001, 0.02):
                yield {'sizes': [256], 'ops': [{'op': 'write', 'mem': 0, 'addr': 0, 'len': la, 'seed': 1, 'flush': False, 'gap': 0}], 'needs_resending': False,
                       'policy': {'delays': [delay], 'dups': [], 'errors': [], 'dup_gap': 0.001}, 'drop': None, 'chain_on_ok': chain,
                       'schedule': {'prefix': [], 'seed': la, 'rate': 0.0}}


def single_preemption_cases(tier):
    """replies without latency; exactly one forced thread switch at the k-th scheduling decision of a fixed history"""
    hist = [
        [{'op': 'write', 'mem': 0, 'addr': 2, 'len': 60, 'seed': 1, 'flush': False, 'gap': 0},
         {'op': 'write', 'mem': 0, 'addr': 70, 'len': 30, 'seed': 2, 'flush': False, 'gap': 0}],
        [{'op': 'read', 'mem': 0, 'addr': 0, 'len': 45, 'seed': 0, 'flush': False, 'gap': 0},
         {'op': 'write', 'mem': 0, 'addr': 5, 'len': 26, 'seed': 3, 'flush': False, 'gap': 0}],
    ]
    for h in hist:
        for k in range(0, 40 if tier == 'quick' else 120):
            for other in (1, 2):
                yield {'sizes': [128], 'ops': h, 'needs_resending': False, 'policy': {'delays': [0.0], 'dups': [], 'errors': [], 'dup_gap': 0.001},
                       'drop': None, 'asap': True, 'schedule': {'prefix': [], 'seed': 0, 'rate': 0.0}, 'prefix_after_connect': [0] * k + [other]}


def subchecks(tier):
    return [
        Sub('histories', run_mem, strategy=mem_case(), examples={'quick': 160, 'thorough': 8000}),
        Sub('late-duplicates', run_mem, cases=late_duplicate_cases, distinct_by_construction=True),
        Sub('single-preemptions', run_mem, cases=single_preemption_cases, distinct_by_construction=True),
        Sub('long-writes', run_mem, cases=long_write_cases, distinct_by_construction=True),
        Sub('drop-sweep', run_mem, cases=drop_sweep_cases, distinct_by_construction=True),
        Sub('error-sweep', run_mem, cases=error_sweep_cases, distinct_by_construction=True),
        Sub('error-duplicates', run_mem, cases=error_duplicate_cases, distinct_by_construction=True),
        Sub('flush-histories', run_mem, cases=flush_cases, distinct_by_construction=True),
        Sub('deck-api', run_deck_api, strategy=deck_api_case(), examples={'quick': 600, 'thorough': 30000}),
    ]
