"""C16: system alignment is rigid and exact; scaling is uniform; inputs untouched."""
import math

import numpy as np
from hypothesis import strategies as st

from vlib.runner import Outcome, Sub

PROPERTY = 'C16'
LEVEL = 'exploration'
SHARDS = {'quick': 4, 'thorough': 16}
RULE = ('A true system (1-6 base stations 1.2-3 m above the floor, random orientations) is expressed in a frame moved by a generated rigid '
        'misalignment (rotation angle up to 30 deg about a random axis, translation up to 3 m, incl. large negative/positive Z offsets); '
        'reference points: origin, 1-3 points on +X, 1-3 points in Z=0 (layouts incl. collinear-free minimal ones). align() must return one '
        'proper rotation applied identically to all stations (pairwise distances / relative rotations preserved to 1e-9) that maps the '
        'samples to origin / +X / Z=0 within 1 mm with all stations above the floor. Scaling: scale_fixed_point and scale_diagonals on '
        'systems shrunk/enlarged by factors 0.2..5 with rays synthesised independently from the true geometry (Crazyflie poses with roll '
        'and pitch); every translation x the same factor, rotations unchanged, result == true system when the sensor diagonal is the '
        'reference (both the geometric diagonal and the library constant). Inputs are deep-compared before/after. Non-trivial = misalignment '
        '> 15 deg or > 1.5 m, a minimal point layout, a tilted Crazyflie pose, or a scale factor != 1. One system in five is almost aligned '
        'already (<= 0.02 deg, <= 0.8 mm): it must come out exact to 10 um. scale_fixed_point also with the reference turned 2..25 deg away from '
        'the estimated position; scale_diagonals also with a sample without angles in the list.')
ASSUMPTIONS = ['reference points are noise free for the 1 mm claim (noisy layouts only check rigidity)',
               'plane samples are not collinear with the X axis (otherwise the plane is not determined)']


def _rot(axis, angle):
    from scipy.spatial.transform import Rotation
    a = np.array(axis, float)
    a = a / np.linalg.norm(a)
    return Rotation.from_rotvec(a * angle).as_matrix()


def _snapshot(poses):
    if isinstance(poses, dict):
        return {k: (v.rot_matrix.copy(), v.translation.copy()) for k, v in poses.items()}
    return [(v.rot_matrix.copy(), v.translation.copy()) for v in poses]


def _same_snap(a, b):
    if isinstance(a, dict):
        return set(a) == set(b) and all(np.array_equal(a[k][0], b[k][0]) and np.array_equal(a[k][1], b[k][1]) for k in a)
    return len(a) == len(b) and all(np.array_equal(x[0], y[0]) and np.array_equal(x[1], y[1]) for x, y in zip(a, b))


def run_align(case):
    import scipy.optimize
    from cflib.localization.lighthouse_system_aligner import LighthouseSystemAligner
    from cflib.localization.lighthouse_types import Pose
    out = Outcome()
    M_R = _rot(case['axis'], math.radians(case['angle']))
    M_t = np.array(case['shift'], float)
    M = Pose(M_R, M_t)
    true_bs = {}
    for b in case['stations']:
        true_bs[b['id']] = Pose(_rot(b['axis'], b['angle']), np.array(b['pos'], float))
    cur_bs = {k: M.rotate_translate_pose(p) for k, p in true_bs.items()}
    origin = M.rotate_translate(np.zeros(3))
    xs = [M.rotate_translate(np.array([x, 0.0, 0.0])) for x in case['x_points']]
    plane = [M.rotate_translate(np.array([p[0], p[1], 0.0])) for p in case['plane_points']]
    if case['noise']:
        rng = np.random.RandomState(case['noise'])
        xs = [p + rng.uniform(-0.001, 0.001, 3) for p in xs]
        plane = [p + rng.uniform(-0.001, 0.001, 3) for p in plane]
    if case.get('history'):
        # the system has a history: it was aligned once, then the same pose objects were re-scaled (Pose.scale, what the scaler uses),
        # and now the re-scaled system is aligned - like any other system
        f = case['history']
        try:
            LighthouseSystemAligner.align(origin, xs, plane, cur_bs)
        except Exception:  # noqa
            pass
        for p_ in cur_bs.values():
            p_.scale(f)
        origin = origin * f
        xs = [p_ * f for p_ in xs]
        plane = [p_ * f for p_ in plane]
        true_bs = {k: Pose(p_.rot_matrix.copy(), p_.translation * f) for k, p_ in true_bs.items()}
        M_t = M_t * f
        out.feat('aligned-scaled-aligned')
    snap_in = (_snapshot(cur_bs), origin.copy(), [p.copy() for p in xs], [p.copy() for p in plane])
    core = case['angle'] <= 20.0 and np.linalg.norm(M_t) <= 2.0
    minimal = len(xs) == 1 and len(plane) == 1
    out.nontrivial = case['angle'] > 15 or np.linalg.norm(M_t) > 1.5 or minimal
    out.feat('core-envelope' if core else 'outer-band', 'minimal-layout' if minimal else 'rich-layout', 'noisy' if case['noise'] else 'noise-free',
             'stations-%d' % min(len(true_bs), 3), *(['almost-aligned-already'] if case.get('tiny') else []))
    if case.get('tiny'):
        out.nontrivial = True
    desc = 'angle=%.4f axis=%r shift=%r stations=%d x=%r plane=%r' % (case['angle'], case['axis'], case['shift'], len(true_bs), case['x_points'], case['plane_points'])
    try:
        result, tr = LighthouseSystemAligner.align(origin, xs, plane, cur_bs)
    except Exception as e:  # noqa
        out.fail('align:raises', '%s: %r' % (desc, e))
        return out
    # inputs untouched
    if not (_same_snap(snap_in[0], _snapshot(cur_bs)) and np.array_equal(snap_in[1], origin) and all(np.array_equal(a, b) for a, b in zip(snap_in[2], xs)) and
            all(np.array_equal(a, b) for a, b in zip(snap_in[3], plane))):
        out.fail('align:inputs-modified', desc)
    # rigidity, regardless of convergence
    R = tr.rot_matrix
    if np.max(np.abs(R @ R.T - np.eye(3))) > 1e-9 or abs(np.linalg.det(R) - 1.0) > 1e-9:
        out.fail('align:not-a-proper-rotation', '%s: det %.6f' % (desc, np.linalg.det(R)))
    if set(result) != set(cur_bs):
        out.fail('align:stations-lost', desc)
        return out
    for k in cur_bs:
        # the transformation applied by plain matrix algebra (not by the library's own composition)
        want_R = tr.rot_matrix @ cur_bs[k].rot_matrix
        want_t = tr.rot_matrix @ cur_bs[k].translation + tr.translation
        if np.max(np.abs(want_R - result[k].rot_matrix)) > 1e-9 or np.max(np.abs(want_t - result[k].translation)) > 1e-9:
            out.fail('align:not-applied-uniformly', '%s: station %r' % (desc, k))
    ids = sorted(cur_bs)
    for i in ids:
        for j in ids:
            if i < j:
                d0 = np.linalg.norm(cur_bs[i].translation - cur_bs[j].translation)
                d1 = np.linalg.norm(result[i].translation - result[j].translation)
                r0 = cur_bs[i].rot_matrix.T @ cur_bs[j].rot_matrix
                r1 = result[i].rot_matrix.T @ result[j].rot_matrix
                if abs(d0 - d1) > 1e-9 or np.max(np.abs(r0 - r1)) > 1e-9:
                    out.fail('align:not-rigid', '%s: stations %r/%r' % (desc, i, j))
    if case['noise']:
        return out
    # exactness
    err = 0.0
    o = tr.rotate_translate(origin)
    err = max(err, float(np.max(np.abs(o))))
    for p in xs:
        q = tr.rotate_translate(p)
        err = max(err, abs(q[1]), abs(q[2]))
        if q[0] <= 0:
            err = max(err, 1.0)
    for p in plane:
        err = max(err, abs(tr.rotate_translate(p)[2]))
    below = [k for k in result if result[k].translation[2] <= 0]
    if case.get('flip'):
        # far outside the 30 degree envelope nothing is promised about convergence, but an answer that does satisfy the
        # reference points up to the mirror ambiguity must have been turned the right way round
        merr = float(np.max(np.abs(o)))
        for p in xs:
            q = tr.rotate_translate(p)
            merr = max(merr, abs(q[1]), abs(q[2]))
        for p in plane:
            merr = max(merr, abs(tr.rotate_translate(p)[2]))
        out.nontrivial = merr <= 1e-3
        out.feat('flip-band-converged' if merr <= 1e-3 else 'flip-band-not-converged')
        if merr <= 1e-3:
            wrongx = [float(tr.rotate_translate(p)[0]) for p in xs if tr.rotate_translate(p)[0] <= 0]
            first = list(cur_bs)[0]
            if wrongx and len(wrongx) == len(xs):
                out.fail('align:flip-not-corrected:x-axis', '%s: x-axis samples end up at x=%r' % (desc, wrongx))
            elif result[first].translation[2] <= 0:
                out.fail('align:flip-not-corrected:floor', '%s: first base station at z=%.3f' % (desc, result[first].translation[2]))
        return out
    true_err = max(float(np.max(np.abs(result[k].translation - true_bs[k].translation))) for k in true_bs)
    if case.get('tiny') and err > 1e-5 and not below:
        # a system that is almost aligned already (hundredths of a degree, tenths of a millimetre) is aligned like any other:
        # from that start the fit is exact to a few nanometres, 10 micrometres is a thousand times that
        out.fail('align:tiny-misalignment-left', '%s: max sample error %.3e m after aligning, base station error %.3e m' % (desc, err, true_err))
    if err > 1e-3 or below:
        # mechanism: does the library's own residual converge with more evaluations from the same start?
        res = scipy.optimize.least_squares(LighthouseSystemAligner._calc_residual, np.zeros(6), x_scale='jac', ftol=1e-12, xtol=1e-12, gtol=1e-12,
                                           method='trf', max_nfev=400, args=(origin, xs, plane))
        converges = float(np.max(np.abs(res.fun))) < 1e-6
        kind = 'below-floor' if below and err <= 1e-3 else 'not-exact'
        band = 'core' if core else 'outer'
        mech = 'evaluation-cap' if converges and kind == 'not-exact' else 'other'
        out.fail('align:%s:%s:%s' % (kind, band, mech), '%s: max sample error %.5f m, stations below floor %r, base station error %.4f m' % (desc, err, below, true_err))
    return out


_unit = st.lists(st.floats(-1, 1, allow_nan=False), min_size=3, max_size=3).filter(lambda v: math.sqrt(sum(x * x for x in v)) > 0.1)


@st.composite
def align_case(draw, flip=False):
    n = draw(st.integers(1, 6))
    stations = []
    ids = draw(st.lists(st.integers(0, 15), min_size=n, max_size=n, unique=True))
    for i in ids:
        stations.append({'id': i, 'pos': [draw(st.floats(-3, 3)), draw(st.floats(-3, 3)), draw(st.floats(1.2, 3.0))], 'axis': draw(_unit), 'angle': draw(st.floats(0, math.pi))})
    angle = draw(st.one_of(st.floats(0, 30), st.sampled_from([0.0, 5.0, 19.9, 25.0, 29.9])))
    if flip:
        angle = draw(st.one_of(st.floats(90, 180), st.sampled_from([180.0, 170.0, 150.0])))
    r = draw(st.one_of(st.floats(0, 3.0), st.sampled_from([0.0, 1.0, 2.0, 2.99])))
    d = np.array(draw(st.one_of(_unit, st.sampled_from([[0, 0, 1], [0, 0, -1], [1, 0, 0]]))), float)
    shift = [float(x) for x in d / np.linalg.norm(d) * r]
    nx = draw(st.integers(1, 3))
    x_points = [draw(st.floats(0.3, 3.0)) for _ in range(nx)]
    npl = draw(st.integers(1, 3))
    plane_points = []
    for _ in range(npl):
        plane_points.append([draw(st.floats(-2.0, 2.0)), draw(st.one_of(st.floats(0.4, 2.5), st.floats(-2.5, -0.4)))])
    axis = draw(_unit)
    if flip:
        axis = draw(st.one_of(_unit, st.sampled_from([[1.0, 0.0, 0.0], [0.0, 1.0, 0.0], [0.0, 0.0, 1.0], [1.0, 1.0, 0.0]])))
    tiny = (not flip) and draw(st.sampled_from([False, False, False, False, True]))
    if tiny:
        angle, shift = angle / 30.0 * 0.02, [x / 3.0 * 0.0008 for x in shift]
    return {'axis': axis, 'angle': angle, 'shift': shift, 'stations': stations, 'x_points': x_points, 'plane_points': plane_points,
            'noise': 0 if (flip or tiny) else draw(st.sampled_from([0, 0, 0, 7])), 'flip': flip, 'tiny': tiny,
            'history': None if (flip or tiny) else draw(st.sampled_from([None, None, None, 0.8, 0.93, 1.07 if r <= 2.8 else 0.93]))}


# ---------------------------------------------------------------- scaling
def run_scale(case):
    from cflib.localization.lighthouse_bs_vector import LighthouseBsVector, LighthouseBsVectors
    from cflib.localization.lighthouse_system_scaler import LighthouseSystemScaler
    from cflib.localization.lighthouse_types import LhCfPoseSample, LhDeck4SensorPositions, Pose
    out = Outcome()
    k = case['k']
    sens = LhDeck4SensorPositions.positions
    true_bs = {b['id']: Pose(_rot(b['axis'], b['angle']), np.array(b['pos'], float)) for b in case['stations']}
    true_cf = [Pose(_rot(c['axis'], math.radians(c['tilt'])) @ _rot([0, 0, 1], c['yaw']), np.array(c['pos'], float)) for c in case['cfs']]
    # rays from the TRUE geometry (independent projection: rotation matrices + atan2)
    samples = []
    usable = True
    for cf in true_cf:
        ang = {}
        for bid, bs in true_bs.items():
            vecs = LighthouseBsVectors()
            for s_ in sens:
                g = cf.rot_matrix @ s_ + cf.translation
                p = bs.rot_matrix.T @ (g - bs.translation)
                if p[0] < 0.2:
                    usable = False
                vecs.append(LighthouseBsVector(math.atan2(p[1], p[0]), math.atan2(p[2], p[0])))
            ang[bid] = vecs
        samples.append(LhCfPoseSample(angles_calibrated=ang))
    tilted = any(c['tilt'] > 1 for c in case['cfs'])
    out.nontrivial = k != 1.0 or tilted
    out.feat('factor-%s' % ('1' if k == 1.0 else '<1' if k < 1 else '>1'), 'tilted-cf' if tilted else 'level-cf')
    if not usable:
        out.feat('excluded-station-behind')
        return out
    # the estimated system is the true one at the wrong scale
    est_bs = {i: Pose(p.rot_matrix.copy(), p.translation / k) for i, p in true_bs.items()}
    est_cf = [Pose(p.rot_matrix.copy(), p.translation / k) for p in true_cf]
    if case.get('alias'):
        # the same Pose object listed twice (a caller may well pass one pose for two samples taken at the same spot)
        est_cf.append(est_cf[0])
        samples.append(samples[0])
        true_cf.append(true_cf[0])
        out.feat('aliased-input')
    if case.get('blank') is not None:
        # a pose for which no base station delivered angles (it stays in both lists, it just contributes nothing)
        j = case['blank'] % (len(est_cf) + 1)
        extra = Pose(_rot([0, 0, 1], 0.3), np.array([0.4, -0.2, 0.3]) / k)
        est_cf.insert(j, extra)
        true_cf.insert(j, Pose(_rot([0, 0, 1], 0.3), np.array([0.4, -0.2, 0.3])))
        samples.insert(j, LhCfPoseSample(angles_calibrated={}))
        out.feat('sample-without-angles')
    snap = (_snapshot(est_bs), _snapshot(est_cf))
    desc = 'k=%r stations=%d cfs=%r alias=%r' % (k, len(true_bs), [(c['pos'], c['tilt']) for c in case['cfs']], case.get('alias'))

    def check(label, res, want_factor):
        bs_s, cf_s, f = res
        if not (_same_snap(snap[0], _snapshot(est_bs)) and _same_snap(snap[1], _snapshot(est_cf))):
            out.fail('scale:inputs-modified:' + label, desc)
        if want_factor is not None and abs(f - want_factor) > 1e-6 * want_factor:
            out.fail('scale:factor:' + label, '%s: factor %.6f, expected %.6f' % (desc, f, want_factor))
        for i in est_bs:
            if not np.array_equal(bs_s[i].rot_matrix, est_bs[i].rot_matrix):
                out.fail('scale:rotation-changed:' + label, desc)
            if np.max(np.abs(bs_s[i].translation - est_bs[i].translation * f)) > 1e-9 * max(1, f):
                out.fail('scale:not-uniform:' + label, '%s: station %r' % (desc, i))
        for a, b in zip(cf_s, est_cf):
            if not np.array_equal(a.rot_matrix, b.rot_matrix) or np.max(np.abs(a.translation - b.translation * f)) > 1e-9 * max(1, f):
                out.fail('scale:not-uniform:' + label, '%s: crazyflie pose' % desc)
    # fixed point
    idx = case['ref'] % len(true_cf)
    if np.linalg.norm(true_cf[idx].translation) > 0.05:
        res = LighthouseSystemScaler.scale_fixed_point(est_bs, est_cf, true_cf[idx].translation.copy(), est_cf[idx])
        check('fixed-point', res, k)
        turn = case.get('ref_turn', 0)
        if turn:
            # the system is only roughly aligned when it is scaled: the reference lies in a slightly different direction than the
            # estimated position, the factor is still the one that makes the distance right
            ref = _rot([0.3, -0.2, 1.0], math.radians(turn)) @ true_cf[idx].translation
            res = LighthouseSystemScaler.scale_fixed_point(est_bs, est_cf, ref, est_cf[idx])
            check('fixed-point-other-direction', res, k)
            out.feat('reference-direction-off')
    # diagonals: with the geometric sensor diagonal as reference the true system comes back
    true_diag = float(np.linalg.norm(sens[0] - sens[3]))
    res = LighthouseSystemScaler.scale_diagonals(est_bs, est_cf, samples, true_diag)
    check('diagonals', res, None)
    # the library keeps ray directions in single precision: each intersection point is off by up to about
    # 1.2e-7 * range / cos(incidence); the tolerance follows the worst ray of the case (grazing rays amplify it)
    worst = 0.0
    for cf in true_cf:
        normal = cf.rot_matrix @ np.array([0.0, 0.0, 1.0])
        for bs in true_bs.values():
            ray = cf.translation - bs.translation
            rng_ = float(np.linalg.norm(ray))
            cosi = abs(float(ray @ normal)) / rng_
            worst = max(worst, 1.2e-7 * rng_ / max(cosi, 1e-6))
    tol = max(5e-5, 4.0 * worst / true_diag)
    if tol > 1e-3:
        out.feat('excluded-grazing-rays')
    elif abs(res[2] - k) > tol * k:
        out.fail('scale:diagonal-factor', '%s: factor %.6f, the system was shrunk by %.6f' % (desc, res[2], k))
    # the library's own deck constant must be that diagonal
    lib = float(LhDeck4SensorPositions.diagonal_distance)
    if abs(lib - true_diag) > 1e-9:
        out.fail('scale:deck-diagonal-constant', 'LhDeck4SensorPositions.diagonal_distance = %.6f m, diagonal of its own sensor positions = %.6f m '
                 '(scale_diagonals with the library constant mis-scales by %.1f %%)' % (lib, true_diag, 100 * (lib / true_diag - 1)))
    return out


@st.composite
def scale_case(draw):
    n = draw(st.integers(1, 4))
    ids = draw(st.lists(st.integers(0, 15), min_size=n, max_size=n, unique=True))
    stations = []
    for i in ids:
        pos = [draw(st.floats(-3, 3)), draw(st.floats(-3, 3)), draw(st.floats(1.8, 3.0))]
        # face the origin region: x axis of the station points towards (0,0,0.5)
        d = np.array([0, 0, 0.5]) - np.array(pos)
        d = d / np.linalg.norm(d)
        yaw = math.atan2(d[1], d[0])
        pitch = -math.asin(d[2])
        R = _rot([0, 0, 1], yaw) @ _rot([0, 1, 0], pitch)
        from scipy.spatial.transform import Rotation
        rv = Rotation.from_matrix(R).as_rotvec()
        ang = float(np.linalg.norm(rv))
        stations.append({'id': i, 'pos': pos, 'axis': [float(x) for x in (rv / ang if ang > 1e-9 else np.array([0, 0, 1.0]))], 'angle': ang})
    m = draw(st.integers(1, 5))
    cfs = [{'pos': [draw(st.floats(-1, 1)), draw(st.floats(-1, 1)), draw(st.floats(0.0, 1.0))], 'yaw': draw(st.floats(-math.pi, math.pi)),
            'tilt': draw(st.sampled_from([0.0, 0.0, 5.0, 10.0, 20.0])), 'axis': [draw(st.floats(-1, 1)), draw(st.floats(-1, 1)) + 1.5, 0.0]} for _ in range(m)]
    return {'stations': stations, 'cfs': cfs, 'k': draw(st.one_of(st.floats(0.2, 5.0), st.sampled_from([1.0, 0.5, 2.0, 1.26]))), 'ref': draw(st.integers(0, 4)),
            'alias': draw(st.sampled_from([False, False, True])), 'ref_turn': draw(st.sampled_from([0, 2, 10, 25])),
            'blank': draw(st.sampled_from([None, None, None, 0, 1, 2]))}


def subchecks(tier):
    return [
        Sub('align', run_align, strategy=align_case(), examples={'quick': 1200, 'thorough': 60000}),
        Sub('flips', run_align, strategy=align_case(flip=True), examples={'quick': 400, 'thorough': 20000}),
        Sub('scale', run_scale, strategy=scale_case(), examples={'quick': 400, 'thorough': 20000}),
    ]
