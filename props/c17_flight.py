"""C17: flight helpers always end on the ground command and track motion faithfully."""
import math
import os
import struct

from hypothesis import strategies as st

from vlib.dsched import Deadlock, Horizon, Session
from vlib.runner import Outcome, Sub

PROPERTY = 'C17'
LEVEL = 'exploration'
SHARDS = {'quick': 4, 'thorough': 16}
RULE = ('MotionCommander / PositionHlCommander run under the deterministic scheduler in virtual time over the real Commander and '
        'HighLevelCommander whose packets are recorded (with virtual timestamps) and decoded independently. Hypothesis draws programs of up '
        'to 12 steps over every primitive (all directions, distances, velocities, turns, circles, start_*/stop with virtual waits, go_to, '
        'default/landing-height changes), explicit land() vs context exit, an optional exception raised at a drawn step, and the schedule of '
        'the setpoint thread vs the commanding thread. Oracles: the packet stream ends with STOP (+ NOTIFY_SETPOINT_STOP for the '
        'MotionCommander) and nothing after it; hover setpoints at most one update period apart with height = integral of commanded v_z and '
        'horizontal/yaw components equal to the commanded vector; blocking primitives last distance/velocity; PositionHlCommander position '
        '== start + sum of displacements and every go-to targets it with duration distance/velocity. Non-trivial = >= 3 primitives incl. a '
        'vertical move, or an exception in the body.')
ASSUMPTIONS = ['zero-length moves are not generated', 'virtual time: computation instantaneous; a setpoint sent at the very instant of a command '
               'may carry the vector from before or after it', 'packets decoded with the layouts checked by C08 (hover type 10: vx, vy, yawrate, z)']


class _BoomKI(KeyboardInterrupt):
    """Ctrl-C in the flight script"""


def _mkboom(case, msg):
    # exceptions come in all shapes: one argument, none (bare raise of a class, Ctrl-C), several (OSError(errno, text))
    kind = case.get('exc_kind', 'one')
    if kind == 'none':
        return _Boom()
    if kind == 'two':
        return _Boom(5, msg)
    if kind == 'ki':
        return _BoomKI()
    return _Boom(msg)


class _Boom(Exception):
    pass


class _Cf:
    """Recording Crazyflie: real Commander/HighLevelCommander on top of send_packet."""

    def __init__(self, s):
        from cflib.crazyflie.commander import Commander
        from cflib.crazyflie.high_level_commander import HighLevelCommander
        self.s = s
        self.packets = []
        self.params = []
        self.hover_count = 0
        self.stall = None
        self.stalls = []
        self.commander = Commander(self)
        self.high_level_commander = HighLevelCommander(self)
        cf = self

        class P:
            def set_value(self_, name, value):
                cf.params.append((s.now, name, value))
        self.param = P()

        class Plat:
            def get_protocol_version(self_):
                return 10
        self.platform = Plat()

    def is_connected(self):
        return True

    def send_packet(self, pk, expected_reply=(), resend=False, timeout=0.2):
        self.s.yield_point()
        port, channel = (pk.header & 0xF0) >> 4, pk.header & 0x03      # as a link driver would transmit it
        t0 = self.s.now       # a packet counts from the moment it is handed to the link
        if port == 7 and channel == 0 and len(pk.data) > 1:
            self.hover_count += 1
            if self.stall and self.hover_count == self.stall['at']:
                # the link stalls (e.g. a full driver queue): this send blocks for a while
                self.s.sleep(self.stall['dur'])
                self.stalls.append((t0, self.s.now))
        self.packets.append((t0, port, channel, bytes(pk.data)))


def _decode(pk):
    t, port, ch, d = pk
    if port == 7 and ch == 0 and d[0] == 10:
        return ('hover', t) + struct.unpack('<ffff', d[1:])
    if port == 7 and ch == 0 and d[0] == 0:
        return ('stop', t)
    if port == 7 and ch == 1 and d[0] == 0:
        return ('notify', t)
    if port == 8:
        if d[0] == 7:
            return ('hl_takeoff', t) + struct.unpack('<Bff?f', d[1:])
        if d[0] == 8:
            return ('hl_land', t) + struct.unpack('<Bff?f', d[1:])
        if d[0] == 3:
            return ('hl_stop', t)
        if d[0] == 12:
            return ('hl_goto', t) + struct.unpack('<BBBfffff', d[1:])
    return ('other', t, port, ch, d)


F32 = lambda x: struct.unpack('<f', struct.pack('<f', x))[0]  # noqa


def _mc_vector(step):
    """commanded (vx, vy, vz, rate) and duration (None = non blocking) of a MotionCommander step"""
    k = step['op']
    d, v = step.get('d'), step.get('v')
    if k in ('left', 'right', 'forward', 'back', 'up', 'down'):
        vec = {'left': (0, v, 0, 0), 'right': (0, -v, 0, 0), 'forward': (v, 0, 0, 0), 'back': (-v, 0, 0, 0), 'up': (0, 0, v, 0), 'down': (0, 0, -v, 0)}[k]
        return vec, d / v
    if k == 'move':
        dx, dy, dz = step['vec']
        dist = math.sqrt(dx * dx + dy * dy + dz * dz)
        return (v * dx / dist, v * dy / dist, v * dz / dist, 0), dist / v
    if k in ('turn_left', 'turn_right'):
        r = step['rate']
        return (0, 0, 0, r if k == 'turn_left' else -r), step['angle'] / r
    if k in ('circle_left', 'circle_right'):
        rad, ang = step['radius'], step['angle']
        rate = 360.0 * v / (2 * rad * math.pi)
        return (v, 0, 0, rate if k == 'circle_left' else -rate), (2 * rad * math.pi * ang / 360.0) / v
    if k.startswith('start_'):
        kk = k[6:]
        if kk in ('left', 'right', 'forward', 'back', 'up', 'down'):
            return {'left': (0, v, 0, 0), 'right': (0, -v, 0, 0), 'forward': (v, 0, 0, 0), 'back': (-v, 0, 0, 0), 'up': (0, 0, v, 0), 'down': (0, 0, -v, 0)}[kk], None
        if kk in ('turn_left', 'turn_right'):
            return (0, 0, 0, step['rate'] if kk == 'turn_left' else -step['rate']), None
        if kk in ('circle_left', 'circle_right'):
            rate = 360.0 * v / (2 * step['radius'] * math.pi)
            return (v, 0, 0, rate if kk == 'circle_left' else -rate), None
        if kk == 'linear':
            return tuple(step['vec']) + (step['rate'],), None
    if k == 'stop':
        return (0, 0, 0, 0), None
    raise AssertionError(k)


def _mc_call(mc, step):
    k = step['op']
    d, v = step.get('d'), step.get('v')
    if k in ('left', 'right', 'forward', 'back', 'up', 'down'):
        return getattr(mc, k)(d, v)
    if k == 'move':
        return mc.move_distance(step['vec'][0], step['vec'][1], step['vec'][2], v)
    if k in ('turn_left', 'turn_right'):
        return getattr(mc, k)(step['angle'], step['rate'])
    if k in ('circle_left', 'circle_right'):
        return getattr(mc, k)(step['radius'], v, step['angle'])
    if k in ('start_left', 'start_right', 'start_forward', 'start_back', 'start_up', 'start_down'):
        return getattr(mc, k)(v)
    if k in ('start_turn_left', 'start_turn_right'):
        return getattr(mc, k)(step['rate'])
    if k in ('start_circle_left', 'start_circle_right'):
        return getattr(mc, k)(step['radius'], v)
    if k == 'start_linear':
        return mc.start_linear_motion(step['vec'][0], step['vec'][1], step['vec'][2], step['rate'])
    if k == 'stop':
        return mc.stop()
    raise AssertionError(k)


def run_mc(case):
    from cflib.positioning.motion_commander import MotionCommander
    out = Outcome()
    steps = case['steps']
    with Session(case.get('schedule'), horizon=100.0) as s:
        cf = _Cf(s)
        cf.stall = case.get('stall')
        cmds = []      # (time, vector) commanded
        durations = []
        raised = None
        hang = None
        try:
            mc = MotionCommander(cf, default_height=case['height'])

            def body():
                for i, st_ in enumerate(steps):
                    if case['raise_at'] == i:
                        raise _mkboom(case, 'step %d' % i)
                    if st_['op'] == 'wait':
                        s.sleep(st_['t'])
                        continue
                    vec, dur = _mc_vector(st_)
                    t0 = s.now
                    cmds.append((t0, vec))
                    _mc_call(mc, st_)
                    if dur is not None:
                        durations.append((st_['op'], dur, s.now - t0))
                        cmds.append((s.now, (0, 0, 0, 0)))
                if case['raise_at'] is not None and case['raise_at'] >= len(steps):
                    raise _mkboom(case, 'end')
            try:
                if case['context']:
                    with mc:
                        t_take = s.now
                        body()
                else:
                    mc.take_off()
                    try:
                        body()
                    finally:
                        mc.land()
            except (_Boom, _BoomKI):
                pass
            except Exception as e:  # noqa
                raised = e
            s.sleep(1.0)
        except (Deadlock, Horizon) as e:
            hang = e
        dec = [_decode(p) for p in cf.packets]
        desc = 'height=%r context=%r raise_at=%r steps=%r' % (case['height'], case['context'], case['raise_at'], [
            (x['op'],) + tuple(x.get(k) for k in ('d', 'v', 'angle', 'rate', 'radius', 'vec', 't') if x.get(k) is not None) for x in steps])
        if hang is not None:
            out.fail('mc:hang', '%s: %s' % (desc, repr(hang)[:300]))
            return out
        if raised is not None:
            out.fail('mc:exit-raised:%s' % type(raised).__name__, '%s: %r; last packets %r' % (desc, raised, [d[0] for d in dec[-3:]]))
        kinds = [d[0] for d in dec]
        if kinds[-2:] != ['stop', 'notify']:
            out.fail('mc:does-not-end-on-stop', '%s: stream ends with %r' % (desc, kinds[-4:]))
        alive = [t for t in s.threads if t.name.startswith('_SetPointThread') and t.state != 'DONE']
        if alive:
            out.fail('mc:setpoint-thread-alive', desc)
        if s.deaths:
            out.fail('mc:thread-died:' + s.deaths[0][1][:60], s.deaths[0][2][-400:])
        hov = [d for d in dec if d[0] == 'hover']
        if 'stop' in kinds:
            after = kinds[kinds.index('stop'):]
            if 'hover' in after:
                out.fail('mc:setpoint-after-stop', '%s: %r' % (desc, after))
        # gaps
        period = 0.2
        for a, b in zip(hov, hov[1:]):
            if any(a[1] <= st1 + 1e-9 and st0 <= b[1] + 1e-9 for st0, st1 in cf.stalls):
                continue
            if b[1] - a[1] > period + 1e-9:
                out.fail('mc:setpoint-gap', '%s: %.4f s between hover setpoints at %.4f' % (desc, b[1] - a[1], a[1]))
                break
        # blocking durations
        for op, want, got in durations:
            if abs(want - got) > 1e-9:
                out.fail('mc:primitive-duration:' + op, '%s: %s lasted %.6f s, distance/velocity is %.6f s' % (desc, op, got, want))
                break
        # model: the take-off (up by height at 0.2 m/s) and the landing are part of the commanded timeline
        if hov and not raised:
            t_first = hov[0][1]
            # full command list: take-off up, body commands, landing down
            full = [(t_first, (0, 0, 0.2, 0)), (t_first + case['height'] / 0.2, (0, 0, 0, 0))] + cmds
            full.sort(key=lambda x: x[0])
            commanded = list(full)

            def effective(skip):
                # while a send is stalled the setpoint thread takes no commands: each command takes effect at the setpoint with which
                # the thread consumed it (one command per setpoint, in order), the height is integrated over that timeline.
                # `skip`: index of a setpoint that consumed nothing (its wait for a command ran out at the very instant one came)
                eff = []
                j = 0
                for tc_, vc_ in commanded:
                    while j < len(hov) and (hov[j][1] < tc_ - 1e-9 or j == skip):
                        j += 1
                    if j >= len(hov):
                        break
                    eff.append((max(tc_, hov[j][1]), vc_))
                    j += 1
                return eff
            timelines = [commanded]
            if cf.stalls:
                stalled = [j for j, h in enumerate(hov) if any(abs(h[1] - st0) <= 1e-9 for st0, st1 in cf.stalls)]
                timelines = [effective(None)] + [effective(j) for j in stalled]
                if os.environ.get('C17_DEBUG'):
                    print('commanded', commanded, '\neff', timelines, '\nstalls', cf.stalls, '\nhov', [(round(h[1], 4), round(h[5], 4)) for h in hov])
            t_stall = min([st0 for st0, st1 in cf.stalls], default=1e18)

            def z_commanded(t):
                z = 0.0
                for (ta, va), nxt in zip(commanded, commanded[1:] + [(1e18, None)]):
                    if min(nxt[0], t) > ta:
                        z += va[2] * (min(nxt[0], t) - ta)
                return z

            def judge(full):
                # landing: after the last body command the library descends at 0.2 m/s until the stream ends
                t_body_end = full[-1][0] if full else t_first

                def z_at(t):
                    z = 0.0
                    for (ta, va), nxt in zip(full, full[1:] + [(1e18, None)]):
                        tb = min(nxt[0], t)
                        if tb > ta:
                            z += va[2] * (tb - ta)
                        if nxt[0] >= t:
                            break
                    return z

                def vec_options(t):
                    opts = []
                    cur = (0, 0, 0, 0)
                    for ta, va in full:
                        if ta < t - 1e-9:
                            cur = va
                        elif abs(ta - t) <= 1e-9:
                            opts.append(va)
                    opts.append(cur)
                    return opts
                for d in hov:
                    t = d[1]
                    if t <= t_body_end + 1e-9:
                        zs = z_at(t)
                        late = t > t_stall + 1e-9
                        if late and 'height-after-stall' not in out.features:
                            out.feat('height-after-stall')
                        if abs(d[5] - F32(zs)) > 1e-5 * max(1.0, abs(zs)) and not (late and abs(d[5] - F32(z_commanded(t))) <= 1e-5 * max(1.0, abs(zs))):
                            return ('mc:height-integral', '%s: hover setpoint at %.4f has z=%.6f, integral of commanded v_z is %.6f' % (desc, t, d[5], zs))
                        if t < t_body_end - 1e-9:
                            ok = any(abs(d[2] - F32(o[0])) < 1e-5 and abs(d[3] - F32(o[1])) < 1e-5 and abs(d[4] - F32(o[3])) < 1e-3 for o in vec_options(t))
                            if not ok:
                                return ('mc:commanded-vector', '%s: hover setpoint at %.4f is (vx=%.4f, vy=%.4f, rate=%.3f), commanded %r' % (
                                    desc, t, d[2], d[3], d[4], vec_options(t)))
                return None
            verdicts = [judge(tl) for tl in timelines]
            if all(v is not None for v in verdicts):
                out.fail(*verdicts[0])
    vertical = any(x['op'] in ('up', 'down', 'start_up', 'start_down') or (x['op'] in ('move', 'start_linear') and x['vec'][2]) for x in steps)
    nprim = len([x for x in steps if x['op'] != 'wait'])
    out.nontrivial = (nprim >= 3 and vertical) or case['raise_at'] is not None
    out.feat('mc-steps-%d' % min(nprim, 4), 'exception' if case['raise_at'] is not None else 'no-exception', 'context' if case['context'] else 'explicit-land',
             'vertical' if vertical else 'horizontal-only')
    return out


# ---------------------------------------------------------------- PositionHlCommander
def run_hl(case):
    from cflib.positioning.position_hl_commander import PositionHlCommander
    out = Outcome()
    steps = case['steps']
    with Session(case.get('schedule'), horizon=100.0) as s:
        cf = _Cf(s)
        raised = None
        model = {'pos': list(case['start']), 'dv': case['dv'], 'dh': case['dh'], 'lh': case['lh']}
        expected_gotos = []
        pos_mismatch = []
        try:
            pc = PositionHlCommander(cf, x=case['start'][0], y=case['start'][1], z=case['start'][2], default_velocity=case['dv'], default_height=case['dh'],
                                     default_landing_height=case['lh'])

            def body():
                for i, st_ in enumerate(steps):
                    if case['raise_at'] == i:
                        raise _mkboom(case, 'x')
                    k = st_['op']
                    v = st_.get('v')
                    vel = v if v is not None else model['dv']
                    if k in ('left', 'right', 'forward', 'back', 'up', 'down'):
                        d = st_['d']
                        delta = {'left': (0, d, 0), 'right': (0, -d, 0), 'forward': (d, 0, 0), 'back': (-d, 0, 0), 'up': (0, 0, d), 'down': (0, 0, -d)}[k]
                        tgt = [model['pos'][j] + delta[j] for j in range(3)]
                        getattr(pc, k)(d, v) if v is not None else getattr(pc, k)(d)
                    elif k == 'move':
                        tgt = [model['pos'][j] + st_['vec'][j] for j in range(3)]
                        pc.move_distance(st_['vec'][0], st_['vec'][1], st_['vec'][2], v) if v is not None else pc.move_distance(*st_['vec'])
                    elif k == 'goto':
                        z = st_['z']
                        tgt = [st_['x'], st_['y'], z if z is not None else model['dh']]
                        if z is not None:
                            pc.go_to(st_['x'], st_['y'], z, v) if v is not None else pc.go_to(st_['x'], st_['y'], z)
                        else:
                            pc.go_to(st_['x'], st_['y'], velocity=v) if v is not None else pc.go_to(st_['x'], st_['y'])
                    elif k == 'set_v':
                        pc.set_default_velocity(st_['v'])
                        model['dv'] = st_['v']
                        continue
                    elif k == 'set_h':
                        pc.set_default_height(st_['h'])
                        model['dh'] = st_['h']
                        continue
                    elif k == 'set_lh':
                        pc.set_landing_height(st_['h'])
                        model['lh'] = st_['h']
                        continue
                    elif k == 'relaunch':
                        # land (possibly on something: landing height above the floor) and take off again
                        pc.land()
                        model['pos'][2] = model['lh']
                        got = pc.get_position()
                        if any(abs(got[j] - model['pos'][j]) > 1e-9 for j in range(3)):
                            pos_mismatch.append((i, got, tuple(model['pos'])))
                        pc.take_off()
                        model['pos'][2] = model['dh']
                        got = pc.get_position()
                        if any(abs(got[j] - model['pos'][j]) > 1e-9 for j in range(3)):
                            pos_mismatch.append((i, got, tuple(model['pos'])))
                        continue
                    dist = math.sqrt(sum((tgt[j] - model['pos'][j]) ** 2 for j in range(3)))
                    if dist > 0:
                        expected_gotos.append((tuple(tgt), dist / vel))
                        model['pos'] = tgt
                    got = pc.get_position()
                    if any(abs(got[j] - model['pos'][j]) > 1e-9 for j in range(3)):
                        pos_mismatch.append((i, got, tuple(model['pos'])))
            try:
                if case['context']:
                    with pc:
                        model['pos'][2] = model['dh']
                        body()
                else:
                    pc.take_off()
                    model['pos'][2] = model['dh']
                    try:
                        body()
                    finally:
                        pc.land()
            except (_Boom, _BoomKI):
                pass
            except Exception as e:  # noqa
                raised = e
            s.sleep(0.5)
        except (Deadlock, Horizon) as e:
            out.fail('hl:hang', repr(e)[:300])
            return out
        dec = [_decode(p) for p in cf.packets]
        kinds = [d[0] for d in dec]
        desc = 'start=%r dv=%r dh=%r lh=%r context=%r raise_at=%r steps=%r' % (case['start'], case['dv'], case['dh'], case['lh'], case['context'], case['raise_at'], [
            (x['op'],) + tuple(x.get(k) for k in ('d', 'v', 'vec', 'x', 'y', 'z', 'h') if x.get(k) is not None) for x in steps])
        below = model['pos'][2] < model['lh']
        if raised is not None:
            out.fail('hl:exit-raised:%s%s' % (type(raised).__name__, ':below-landing-height' if below else ''), '%s: %r; stream ends %r' % (desc, raised, kinds[-3:]))
        if not kinds or kinds[-1] != 'hl_stop':
            out.fail('hl:does-not-end-on-stop%s' % (':below-landing-height' if below else ''), '%s: stream ends with %r' % (desc, kinds[-3:]))
        if pos_mismatch:
            out.fail('hl:position', '%s: after step %d get_position() = %r, start + displacements = %r' % ((desc,) + pos_mismatch[0]))
        gotos = [d for d in dec if d[0] == 'hl_goto']
        if len(gotos) != len(expected_gotos):
            if not raised:
                out.fail('hl:goto-count', '%s: %d go-to packets, %d moves' % (desc, len(gotos), len(expected_gotos)))
        else:
            for g, (tgt, dur) in zip(gotos, expected_gotos):
                _, t, gm, rel, lin, x, y, z, yaw, d = g
                if rel or any(abs(a - F32(b)) > 1e-5 * max(1, abs(b)) for a, b in zip((x, y, z), tgt)) or abs(d - F32(dur)) > 1e-5 * max(1, dur):
                    out.fail('hl:goto-target', '%s: go-to (%.4f, %.4f, %.4f) in %.4f s, model target %r in %.4f s' % (desc, x, y, z, d, tgt, dur))
                    break
        # take-off and landing packets
        if 'hl_takeoff' in kinds:
            tk = dec[kinds.index('hl_takeoff')]
            if abs(tk[3] - F32(case['dh'])) > 1e-6 or abs(tk[6] - F32(case['dh'] / case['dv'])) > 1e-5:
                out.fail('hl:takeoff', '%s: take-off packet %r' % (desc, tk))
        if 'hl_land' in kinds and not raised:
            ld = dec[len(kinds) - 1 - kinds[::-1].index('hl_land')]
            want_d = (model['pos'][2] - model['lh']) / model['dv']
            if abs(ld[3] - F32(model['lh'])) > 1e-6 or (want_d >= 0 and abs(ld[6] - F32(want_d)) > 1e-5 * max(1, want_d)):
                out.fail('hl:land', '%s: land packet height %.4f duration %.4f, expected %.4f / %.4f' % (desc, ld[3], ld[6], model['lh'], want_d))
    vertical = any(x['op'] in ('up', 'down') or (x['op'] == 'move' and x['vec'][2]) or (x['op'] == 'goto' and x['z'] is not None) for x in steps)
    nprim = len([x for x in steps if not x['op'].startswith('set_')])
    out.nontrivial = (nprim >= 3 and vertical) or case['raise_at'] is not None
    out.feat('hl-steps-%d' % min(nprim, 4), 'exception' if case['raise_at'] is not None else 'no-exception', 'context' if case['context'] else 'explicit-land',
             'vertical' if vertical else 'horizontal-only', 'below-landing-height' if below else 'above-landing-height')
    return out


_d = st.one_of(st.floats(0.05, 2.0, allow_nan=False), st.sampled_from([0.1, 0.3, 0.5, 1.0]))
_v = st.one_of(st.floats(0.05, 1.0, allow_nan=False), st.sampled_from([0.2, 0.5, 0.5, 0.5, 1.0]))
_ang = st.one_of(st.floats(1.0, 720.0, allow_nan=False), st.sampled_from([90.0, 180.0, 360.0]))
_rate = st.one_of(st.floats(10.0, 360.0, allow_nan=False), st.sampled_from([72.0, 90.0]))
_rad = st.floats(0.1, 2.0, allow_nan=False)
# micrometre resolution: a component is 0 or at least 1e-6 (squares of sub-1e-160 values underflow, no caller produces such distances)
_comp = st.one_of(st.floats(-1.0, 1.0, allow_nan=False).map(lambda x: round(x, 6) + 0.0), st.sampled_from([0.0, 0.5, -0.5]))
_vec = st.lists(_comp, min_size=3, max_size=3).filter(lambda v: math.sqrt(sum(x * x for x in v)) > 0.01)


@st.composite
def _mc_step(draw):
    k = draw(st.sampled_from(['left', 'right', 'forward', 'back', 'up', 'down', 'up', 'down', 'move', 'turn_left', 'turn_right', 'circle_left', 'circle_right',
                              'start_left', 'start_right', 'start_forward', 'start_back', 'start_up', 'start_down', 'start_turn_left', 'start_turn_right',
                              'start_circle_left', 'start_circle_right', 'start_linear', 'stop', 'wait', 'wait']))
    stp = {'op': k}
    if k in ('left', 'right', 'forward', 'back', 'up', 'down'):
        stp.update(d=draw(_d), v=draw(_v))
    elif k == 'move':
        stp.update(vec=draw(_vec), v=draw(_v))
    elif k in ('turn_left', 'turn_right'):
        stp.update(angle=draw(_ang), rate=draw(_rate))
    elif k in ('circle_left', 'circle_right'):
        stp.update(radius=draw(_rad), v=draw(_v), angle=draw(_ang))
    elif k in ('start_left', 'start_right', 'start_forward', 'start_back', 'start_up', 'start_down'):
        stp.update(v=draw(_v))
    elif k in ('start_turn_left', 'start_turn_right'):
        stp.update(rate=draw(_rate))
    elif k in ('start_circle_left', 'start_circle_right'):
        stp.update(radius=draw(_rad), v=draw(_v))
    elif k == 'start_linear':
        stp.update(vec=draw(st.lists(_comp, min_size=3, max_size=3)), rate=draw(st.sampled_from([0.0, 0.0, 45.0, -90.0])))
    elif k == 'wait':
        stp.update(t=draw(st.sampled_from([0.05, 0.2, 0.33, 1.0, 2.5])))
    return stp


_sched = st.fixed_dictionaries({'prefix': st.lists(st.integers(0, 3), max_size=30), 'seed': st.integers(0, 10 ** 6), 'rate': st.sampled_from([0.0, 0.0, 0.1, 0.4])})


@st.composite
def mc_case(draw):
    steps = draw(st.lists(_mc_step(), max_size=12))
    # a control loop re-issuing a motion: consecutive linear motions that keep the vertical speed (and only change the rest)
    last = None
    for st_ in steps:
        if st_['op'] == 'start_linear':
            if last is not None and draw(st.booleans()):
                st_['vec'] = [st_['vec'][0], st_['vec'][1], last['vec'][2]]
            last = st_
    if draw(st.sampled_from([False, False, True])):
        vz = draw(st.sampled_from([0.1, -0.1, 0.25]))
        extra = [{'op': 'start_linear', 'vec': [draw(_comp), draw(_comp), vz], 'rate': 0.0}, {'op': 'wait', 't': draw(st.sampled_from([0.2, 0.33, 1.0]))},
                 {'op': 'start_linear', 'vec': [draw(_comp), draw(_comp), vz], 'rate': 0.0}, {'op': 'wait', 't': 0.2}]
        pos = draw(st.integers(0, len(steps)))
        steps[pos:pos] = extra
    return {'height': draw(st.sampled_from([0.3, 0.5, 1.0, 0.25])), 'context': draw(st.booleans()), 'steps': steps,
            'raise_at': draw(st.one_of(st.none(), st.none(), st.integers(0, len(steps)))), 'exc_kind': draw(st.sampled_from(['one', 'one', 'none', 'two', 'ki'])), 'schedule': draw(_sched),
            'stall': draw(st.one_of(st.none(), st.none(), st.fixed_dictionaries({'at': st.integers(1, 60), 'dur': st.sampled_from([0.5, 1.5, 3.0])})))}


@st.composite
def _hl_step(draw):
    k = draw(st.sampled_from(['left', 'right', 'forward', 'back', 'up', 'down', 'down', 'move', 'goto', 'goto', 'set_v', 'set_h', 'set_lh', 'relaunch']))
    stp = {'op': k}
    if k == 'relaunch':
        return stp
    v = draw(st.one_of(st.none(), _v))
    if k in ('left', 'right', 'forward', 'back', 'up', 'down'):
        stp.update(d=draw(_d), v=v)
    elif k == 'move':
        stp.update(vec=draw(_vec), v=v)
    elif k == 'goto':
        stp.update(x=draw(_comp), y=draw(_comp), z=draw(st.one_of(st.none(), st.floats(0.0, 2.0, allow_nan=False), st.sampled_from([0.0, 0.5]))), v=v)
    elif k == 'set_v':
        stp.update(v=draw(_v))
    else:
        stp.update(h=draw(st.sampled_from([0.0, 0.2, 0.5, 1.0, 1.5])))
    return stp


@st.composite
def hl_case(draw):
    steps = draw(st.lists(_hl_step(), max_size=12))
    return {'start': [draw(_comp), draw(_comp), draw(st.sampled_from([0.0, 0.0, 0.0, 0.3, 1.0]))], 'dv': draw(st.sampled_from([0.5, 0.2, 1.0])),
            'dh': draw(st.sampled_from([0.5, 1.0, 0.3])),
            'lh': draw(st.sampled_from([0.0, 0.0, 0.1, 0.4])), 'context': draw(st.booleans()), 'steps': steps,
            'raise_at': draw(st.one_of(st.none(), st.none(), st.integers(0, len(steps)))), 'exc_kind': draw(st.sampled_from(['one', 'one', 'none', 'two', 'ki'])), 'schedule': draw(_sched)}


def subchecks(tier):
    return [
        Sub('motion-commander', run_mc, strategy=mc_case(), examples={'quick': 900, 'thorough': 30000}),
        Sub('position-hl', run_hl, strategy=hl_case(), examples={'quick': 500, 'thorough': 25000}),
    ]
