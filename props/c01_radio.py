"""C01: radio link exactly-once in-order delivery under loss; link error exactly at N consecutive losses; safelink only if confirmed."""
import itertools
import threading
import time

from hypothesis import strategies as st

from vlib.fakeradio import HarnessTimeout, LockstepDongle, RadioEnv, RadioThreadEnded, SafelinkPeer
from vlib.runner import Outcome, Sub

PROPERTY = 'C01'
LEVEL = 'fault_enumeration'
SHARDS = {'quick': 4, 'thorough': 16}
RULE = ('The real RadioDriver -> RadioManager -> _SharedRadio -> Crazyradio stack runs over a fake USB dongle in lock-step: every '
        'transmission parks the radio thread until the harness has (1) let the application submit/receive packets and (2) chosen the outcome '
        '{delivered+acked, uplink lost, delivered but ack lost}. A reference model of the safelink peer keeps its own sequence bits. Sub '
        '"exhaustive": all outcome sequences of length <= K (quick 5, thorough 8) x 3 submission patterns; sub "random": Hypothesis '
        'sequences up to 120 transmissions with drawn submit/downlink schedules, negotiation outcomes (echo, no echo, ack lost, lost), peer '
        'with/without safelink, status-byte styles and retry limits N in {1..6,100}. Oracles: uplink frames accepted by the peer == packets '
        'for which send_packet returned True (order, no repeats); packets from receive_packet == packets the peer queued; error callback '
        'exactly at the N-th consecutive unacknowledged transmission; safelink bits/needs_resending iff a negotiation reply echoed. '
        'The negotiation is confirmed at attempt k for every k = 1..11 (enumerated); a step may hand the previous packet object over again. '
        'Sub "shared-dongle": 2-4 links on one dongle (free-running fake dongle routing by channel/address, per-link cyclic loss patterns), links '
        'opened and closed while others keep running, one slow (1.3 s) but successful dongle transaction; every link must still deliver exactly once. '
        'Non-trivial = a loss while a non-null packet is in flight in that direction / a link opened after another was closed / a slow transaction.')
ASSUMPTIONS = ['peer model: alternating-bit in both directions as in the nRF51 ESB firmware, reset by the ff 05 01 service packet',
               'USB level failures (None/exception from the dongle) are outside the three stated outcomes and not generated',
               'application acts only while the radio thread is parked; timed queue waits inside the driver return at once',
               'exactly-once oracles are evaluated on histories without a link-error report (the property says "short of a link failure")']


def _status(style, ack):
    if ack:
        return [0x01, 0x03, 0x31, 0xF1][style % 4]
    return [0x00, 0x00, 0x32, 0xF0][style % 4]


def _wait_closed():
    import cflib.crtp.radiodriver as rd
    t0 = time.time()
    while True:
        r = rd.RadioManager._radios
        if not r or r[0] is None or r[0]._radio is None:
            return
        if time.time() - t0 > 20:
            raise HarnessTimeout('shared radio did not close')
        time.sleep(0.0005)


def run_link(case):
    """one or two sessions on the SAME RadioDriver object (connect, traffic, close, connect again ...)"""
    import cflib.crtp.radiodriver as rd
    out = Outcome()
    sessions = [case] + list(case.get('more_sessions', []))
    current = {}
    with RadioEnv(lambda: [current['dongle']], nonblocking_queue=True):
        drv = rd.RadioDriver()
        for si_, sess in enumerate(sessions):
            current['dongle'] = LockstepDongle()
            _run_session(rd, drv, current['dongle'], sess, out, si_)
            if out.violations:
                break
    if len(sessions) > 1:
        out.feat('sessions-%d' % len(sessions))
    return out


def _run_session(rd, drv, dongle, case, out, session_index):
    from cflib.crtp.crtpstack import CRTPPacket
    N = case['N']
    steps = case['steps']
    peer = SafelinkPeer(case['peer_supports'])
    errors = []
    txi = {'n': 0}
    style = case.get('style', 0)
    if True:
        rd.set_retries_before_disconnect(N)
        drv.connect('radio://0/80/2M', None, lambda m: errors.append((txi['n'], m)))
        dongle.alive_check = lambda: drv._thread is not None and drv._thread.is_alive()
        try:
            # ---- negotiation
            host_safelink = False
            nego = list(case['nego'])
            if not case['peer_supports']:
                # a peer without safelink may answer the negotiation frame with ordinary downlink traffic
                for k in range(case.get('pre_queue', 0)):
                    kind = case.get('pre_kind', 'data')
                    # ordinary data, or the null packet / a fragment that happens to start like the negotiation request
                    peer.queue.append(bytes([0x00, 0x41 + k, 0x0a]) if kind == 'data' else b'\xff' if kind == 'null' else b'\xff\x05')
            for i in range(10):
                frame = dongle.next_tx()
                if frame != b'\xff\x05\x01':
                    out.fail('nego:frame', 'negotiation attempt %d transmitted %s' % (i, frame.hex()))
                    break
                o = nego[i] if i < len(nego) else 'lost'
                if o == 'ok':
                    payload = peer.receive(frame)
                    dongle.post(bytes([_status(style, True)]) + payload)
                    if payload == b'\xff\x05\x01':
                        host_safelink = True
                        break
                elif o == 'acklost':
                    peer.receive(frame)
                    dongle.post(bytes([_status(style, False)]))
                else:
                    dongle.post(bytes([_status(style, False)]))
            out.feat('safelink' if host_safelink else 'no-safelink')
            # ---- main loop
            submitted = []      # packets for which send_packet returned True
            last_pk = []
            received = []
            queued = []
            consecutive = 0
            expected_errors = 0
            up_seq = 0
            down_seq = 0
            loss_with_up = False
            loss_with_down = False
            inflight_up = False
            ndown = sum(s_['down'] for s_ in steps)
            flush = [{'submit': False, 'down': 0, 'outcome': 'ok'}] * (2 * ndown + 6)
            for si, step in enumerate(list(steps) + flush):
                frame = dongle.next_tx()
                txi['n'] += 1
                if si == 0 and drv.needs_resending != (not host_safelink):
                    out.fail('safelink:needs_resending', 'negotiation %r peer_supports=%r: needs_resending=%r' % (
                        case['nego'], case['peer_supports'], drv.needs_resending))
                if len(errors) != expected_errors:
                    out.fail('linkerror:count', 'N=%d: after %d transmissions (outcomes %r) %d error reports, expected %d' % (
                        N, txi['n'] - 1, [s['outcome'] for s in (list(steps) + flush)[:si]], len(errors), expected_errors))
                    expected_errors = len(errors)
                nonnull = (frame[0] & 0xF0) != 0xF0
                if not host_safelink:
                    # frames must go out byte for byte
                    pass
                # application acts while the radio thread is parked
                while True:
                    p = drv.receive_packet(0)
                    if p is None:
                        break
                    received.append((p.port, p.channel, bytes(p.data)))
                if step['submit'] and step.get('again') and last_pk and drv.out_queue.empty():
                    # the same packet object handed over once more (a caller repeating a request, as the bootloader client does)
                    if drv.send_packet(last_pk[0]):
                        submitted.append(last_pk[1])
                    out.feat('same-packet-object-again')
                elif step['submit'] and drv.out_queue.empty():
                    pk = CRTPPacket()
                    pk.set_header(up_seq % 15, (up_seq // 15) % 4)
                    pk.data = bytes([up_seq & 0xff, up_seq >> 8]) if up_seq % 5 else bytes([up_seq & 0xff, up_seq >> 8, 0xF3, 0xFF])
                    if up_seq % 7 == 3:
                        pk.data = b''       # header-only packet: told apart from its neighbours by port and channel
                    elif up_seq % 9 == 4:
                        pk.data = bytes([up_seq & 0xff, up_seq >> 8]) + bytes(range(100, 128))   # a full packet: 30 data bytes
                    last_pk[:] = [pk, (pk.header & 0xF3, bytes(pk.data))]
                    if drv.send_packet(pk):
                        submitted.append(last_pk[1])
                    up_seq += 1
                for _ in range(step['down']):
                    body = bytes([down_seq & 0xff, down_seq >> 8]) if down_seq % 4 else b''
                    if down_seq % 6 == 5:
                        body = bytes([down_seq & 0xff, down_seq >> 8]) + bytes(range(28))     # a full packet: 30 data bytes
                    hdr = ((down_seq % 15) << 4) | (down_seq // 15) % 4
                    if down_seq % 5 == 2:
                        # link-service traffic in between (port 15 channel 3: RSSI reports, also truncated ones); it is not part of
                        # the comparison below but must not disturb the packets around it
                        peer.queue.append(bytes([0xF3]) + [b'\x01', b'\x01\x2d', b'\x01\x2d\x00', b'\x00'][(down_seq // 5) % 4])
                    peer.queue.append(bytes([hdr]) + body)
                    queued.append((down_seq % 15, (down_seq // 15) % 4, body))
                    down_seq += 1
                o = step['outcome']
                down_pending = peer.cur is not None or bool(peer.queue)
                if o == 'ok':
                    payload = peer.receive(frame)
                    consecutive = 0
                    dongle.post(bytes([_status(style, True)]) + payload)
                else:
                    if nonnull:
                        loss_with_up = True
                    if o == 'ack_lost':
                        peer.receive(frame)
                        if down_pending:
                            loss_with_down = True
                    consecutive += 1
                    if consecutive == N:
                        expected_errors += 1
                    dongle.post(bytes([_status(style, False)]))
            frame = dongle.next_tx()
            if len(errors) != expected_errors:
                out.fail('linkerror:count', 'N=%d outcomes %r: %d error reports, expected %d' % (
                    N, [s['outcome'] for s in steps], len(errors), expected_errors))
            while True:
                p = drv.receive_packet(0)
                if p is None:
                    break
                received.append((p.port, p.channel, bytes(p.data)))
        except RadioThreadEnded:
            out.fail('radio:thread-died', 'session %d nego %r N=%d after %d transmissions: the radio thread ended on its own (link still open, no error reported): '
                     'nothing is transmitted or received any more' % (session_index, case['nego'], N, txi['n']))
            return
        finally:
            dongle.release(b'\x00')
            drv.close()
            _wait_closed()
    out.nontrivial = out.nontrivial or loss_with_up or loss_with_down
    out.feat('loss-with-uplink-inflight' if loss_with_up else 'no-uplink-loss', 'loss-with-downlink-pending' if loss_with_down else 'no-downlink-loss',
             'N-%s' % (N if N < 100 else 'default'))
    desc = 'session %d nego %r peer_supports=%r N=%d steps %s' % (session_index, case['nego'], case['peer_supports'], N,
                                                      ' '.join('%s%s%d' % (s['outcome'][0] if s['outcome'] != 'ack_lost' else 'a', 'S' if s['submit'] else '-', s['down']) for s in steps))
    if expected_errors == 0 and host_safelink:
        acc = [(h, d) for h, d in peer.accepted if (h & 0xF0) != 0xF0]
        if acc != submitted:
            kind = 'duplicate' if len(acc) > len(submitted) else 'lost' if len(acc) < len(submitted) else 'order'
            out.fail('uplink:' + kind, '%s: submitted %r, peer accepted %r' % (desc, [d.hex() for h, d in submitted], [d.hex() for h, d in acc]))
        rec = [r for r in received if r[0] != 15]
        if rec != queued:
            kind = 'duplicate' if len(rec) > len(queued) else 'lost' if len(rec) < len(queued) else 'order'
            out.fail('downlink:' + kind, '%s: peer queued %r, application received %r' % (desc, [(a, b, c.hex()) for a, b, c in queued],
                                                                                        [(a, b, c.hex()) for a, b, c in rec]))
    if not host_safelink:
        # raw mode: every main-loop frame is the null packet or the submitted packet, byte for byte (bits 2-3 untouched)
        main = [f for ch, dr, ad, f in dongle.tx if f != b'\xff\x05\x01']
        allowed = set([b'\xff'] + [bytes([h | 0x0C]) + d for h, d in submitted])
        bad = [f for f in main if f not in allowed]
        if bad:
            out.fail('safelink:used-without-confirmation', '%s: frame %s sent although safelink was never confirmed' % (desc, bad[0].hex()))


_OUT = ['ok', 'up_lost', 'ack_lost']


def exhaustive_cases(tier):
    K = 5 if tier == 'quick' else 8
    for pattern in ('always', 'never', 'alternate'):
        for k in range(1, K + 1):
            for outs in itertools.product(_OUT, repeat=k):
                steps = [{'submit': pattern == 'always' or (pattern == 'alternate' and i % 2 == 0),
                          'down': 1 if pattern != 'always' or i % 2 == 0 else 0, 'outcome': o} for i, o in enumerate(outs)]
                yield {'N': 100, 'nego': ['ok'], 'peer_supports': True, 'steps': steps, 'style': k % 4}
    # the negotiation confirmed at the k-th attempt for every k (k = 11: never within the ten attempts), by both kinds of loss and mixed
    steps = [{'submit': True, 'down': 1, 'outcome': o} for o in ('ok', 'ack_lost', 'ok', 'up_lost', 'ok', 'ok')]
    for k in range(0, 11):
        for kinds in (['lost'], ['acklost'], ['lost', 'acklost']):
            yield {'N': 100, 'nego': [kinds[i % len(kinds)] for i in range(k)] + ['ok'], 'peer_supports': True, 'steps': steps, 'style': k % 4}


_step = st.fixed_dictionaries({'submit': st.booleans(), 'again': st.sampled_from([False, False, False, True]), 'down': st.sampled_from([0, 0, 1, 1, 2]),
                               'outcome': st.sampled_from(['ok', 'ok', 'ok', 'up_lost', 'ack_lost'])})


@st.composite
def random_case(draw, _depth=0):
    supports = draw(st.sampled_from([True, True, True, False]))
    nego = draw(st.one_of(st.just(['ok']), st.lists(st.sampled_from(['ok', 'lost', 'acklost']), max_size=10),
                          st.builds(lambda k, kind: [kind] * k + ['ok'], st.integers(0, 10), st.sampled_from(['lost', 'acklost']))))
    N = draw(st.sampled_from([100, 100, 1, 2, 3, 4, 5, 6]))
    n = draw(st.sampled_from([3, 8, 20, 40, 120])) if N == 100 else draw(st.integers(1, 14))
    steps = draw(st.lists(_step, min_size=1, max_size=n))
    case = {'N': N, 'nego': nego, 'peer_supports': supports, 'steps': steps, 'style': draw(st.integers(0, 3)),
            'pre_queue': draw(st.sampled_from([0, 1, 2, 10])), 'pre_kind': draw(st.sampled_from(['data', 'data', 'null', 'prefix']))}
    if _depth == 0 and draw(st.sampled_from([False, False, True])):
        case['more_sessions'] = [draw(random_case(_depth=1))]
        case['steps'] = case['steps'][:12]
    return case


# ---------------------------------------------------------------------------------------------------------------------
# several links on one dongle (a swarm on one Crazyradio): links are opened and closed while others keep running

_SHARED_CHANNELS = [0, 11, 125, 80]      # link i uses channel _SHARED_CHANNELS[i]: both ends of the channel range are in use


def run_shared(case):
    """ops: ('open', i) / ('close', i) / ('traffic', i, n_up, n_down); link i uses channel _SHARED_CHANNELS[i]; free-running fake dongle that routes
    every frame to the peer of the (channel, address) it was sent on and loses transmissions after a per-link cyclic pattern"""
    import cflib.crtp.radiodriver as rd
    from cflib.crtp.crtpstack import CRTPPacket
    from vlib.fakeradio import FakeDongle
    out = Outcome()
    nl = case['links']
    peers = {}
    txn = {}

    def answer(d, frame):
        i = _SHARED_CHANNELS.index(d.channel) if d.channel in _SHARED_CHANNELS else None
        peer = peers.get(i)
        if peer is None:
            return b'\x00'
        k = txn[i] = txn.get(i, 0) + 1
        st_ = case.get('stall')
        if st_ and st_[0] == i and st_[1] == k:
            # one slow dongle transaction (a USB transfer may take up to its 1 s timeout in each direction and still succeed)
            time.sleep(st_[2])
        pat = case['loss'][i % len(case['loss'])]
        o = pat[k % len(pat)]
        if o == 'u':
            return b'\x00'
        payload = peer.receive(frame)
        if o == 'a':
            return b'\x00'
        return b'\x01' + payload

    dongle = FakeDongle(answer=answer)
    drivers = {}
    submitted = {}
    queued = {}
    received = {}
    seq = {'up': 0, 'down': 0}
    errors = []
    with RadioEnv(lambda: [dongle]):
        rd.set_retries_before_disconnect(100)
        try:
            for op in case['ops']:
                i = op[1]
                if op[0] == 'open' and i not in drivers:
                    peers[i] = SafelinkPeer(True)
                    txn[i] = 0
                    submitted[i], queued[i], received[i] = [], [], []
                    drv = rd.RadioDriver()
                    drv.connect('radio://0/%d/2M/E7E7E7E70%d' % (_SHARED_CHANNELS[i], i), None, lambda m, i=i: errors.append((i, m)))
                    drivers[i] = drv
                elif op[0] == 'close' and i in drivers:
                    shared = rd.RadioManager._radios[0]
                    before = len(shared._rsp_queues) if shared is not None else 0
                    drv = drivers.pop(i)
                    closer = threading.Thread(target=drv.close, daemon=True)
                    closer.start()
                    closer.join(10)
                    if closer.is_alive():
                        out.fail('radio:close-hangs:shared-dongle', 'links %d ops %r: close() of link %d does not return (its thread waits for an answer '
                                 'that never comes)' % (nl, case['ops'], i))
                        drv._thread._sp = True
                        [drv._radio._rsp_queue.put(None) for _ in range(40)]   # also frees a thread inside the 10 start-up requests
                        closer.join(10)
                        break
                    del peers[i]
                    # the STOP command is served by the shared radio thread: wait until it has been (the history is then the same every run)
                    t0 = time.time()
                    while shared is not None and len(shared._rsp_queues) >= before and time.time() - t0 < 10:
                        time.sleep(0.001)
                elif op[0] == 'traffic' and i in drivers:
                    drv = drivers[i]
                    for _ in range(op[3]):
                        body = bytes([seq['down'] & 0xff, seq['down'] >> 8, i])
                        peers[i].queue.append(bytes([(seq['down'] % 14) << 4 | (seq['down'] % 4)]) + body)
                        queued[i].append((seq['down'] % 14, seq['down'] % 4, body))
                        seq['down'] += 1
                    for _ in range(op[2]):
                        pk = CRTPPacket()
                        pk.set_header(seq['up'] % 14, seq['up'] % 4)
                        pk.data = bytes([seq['up'] & 0xff, seq['up'] >> 8, i])
                        if drv.send_packet(pk):
                            submitted[i].append((pk.header & 0xF3, bytes(pk.data)))
                        seq['up'] += 1
                    deadline = time.time() + 10
                    while time.time() < deadline:
                        p = drv.receive_packet(0.01)
                        if p is not None and p.port != 15:
                            received[i].append((p.port, p.channel, bytes(p.data)))
                        acc = [(h, dd) for h, dd in peers[i].accepted if (h & 0xF0) != 0xF0]
                        if len(acc) >= len(submitted[i]) and len(received[i]) >= len(queued[i]) and drv.out_queue.empty():
                            break
                    # a little more traffic on every other open link: nothing of it may be disturbed by what happened to link i
                    for j, dj in drivers.items():
                        accj = [(h, dd) for h, dd in peers[j].accepted if (h & 0xF0) != 0xF0]
                        desc = 'links %d ops %r loss %r: link %d' % (nl, case['ops'], case['loss'], j)
                        if j == i:
                            if accj != submitted[j]:
                                kind = 'duplicate' if len(accj) > len(submitted[j]) else 'lost' if len(accj) < len(submitted[j]) else 'order'
                                out.fail('uplink:' + kind + ':shared-dongle', '%s: submitted %r, peer accepted %r' % (
                                    desc, [dd.hex() for h, dd in submitted[j]], [dd.hex() for h, dd in accj]))
                            if received[j] != queued[j]:
                                kind = 'duplicate' if len(received[j]) > len(queued[j]) else 'lost' if len(received[j]) < len(queued[j]) else 'order'
                                out.fail('downlink:' + kind + ':shared-dongle', '%s: peer queued %r, application received %r' % (
                                    desc, [c.hex() for a, b, c in queued[j]], [c.hex() for a, b, c in received[j]]))
                    if out.violations:
                        break
            if errors:
                out.fail('linkerror:count:shared-dongle', 'links %d ops %r loss %r: link error reported %r although no loss streak reaches the limit' % (
                    nl, case['ops'], case['loss'], errors[:2]))
        finally:
            for drv in drivers.values():
                try:
                    # a driver thread left waiting for an answer that was handed to another link would make close() wait for ever
                    drv._thread._sp = True
                    [drv._radio._rsp_queue.put(None) for _ in range(40)]   # also frees a thread inside the 10 start-up requests
                    drv.close()
                except Exception:  # noqa
                    pass
    closes_between = any(a[0] == 'close' for a in case['ops']) and sum(1 for a in case['ops'] if a[0] == 'open') > 2
    out.nontrivial = closes_between
    out.nontrivial = out.nontrivial or bool(case.get('stall'))
    out.feat('open-after-close-with-others-running' if closes_between else 'no-reopen', 'links-%d' % nl, 'slow-transaction' if case.get('stall') else 'prompt-dongle')
    return out


def run_error_close(case):
    """the peer stops answering after `good` acknowledged transmissions; the application's error callback closes the driver from inside
    the callback (what Crazyflie._link_error_cb does, on the radio thread itself): exactly one report, close() returns without raising,
    the radio thread ends, and the same driver object connects again"""
    import cflib.crtp.radiodriver as rd
    from vlib.fakeradio import FakeDongle
    out = Outcome(nontrivial=True)
    out.feat('error-callback-closes-the-driver', 'N-%d' % case['N'])
    state = {'n': 0, 'good': case['good']}
    peer = SafelinkPeer(case['peer_supports'])

    def answer(d, frame):
        state['n'] += 1
        if state['n'] > state['good']:
            return b'\x00'
        return b'\x01' + peer.receive(frame)
    dongle = FakeDongle(answer=answer)
    reports = []
    problems = []
    with RadioEnv(lambda: [dongle]):
        rd.set_retries_before_disconnect(case['N'])
        drv = rd.RadioDriver()
        for session in range(2):
            done = threading.Event()

            def on_error(msg, drv=drv, done=done, session=session):
                reports.append((session, msg))
                try:
                    drv.close()
                except BaseException as e:  # noqa
                    problems.append('session %d: close() from inside the error callback raised %r' % (session, e))
                done.set()
            state['n'] = 0
            try:
                drv.connect('radio://0/80/2M', None, on_error)
            except Exception as e:  # noqa
                out.fail('linkerror:cannot-connect-again', 'N=%d good=%d: connect number %d raised %r' % (case['N'], case['good'], session + 1, e))
                break
            th = drv._thread
            if not done.wait(20):
                out.fail('linkerror:count:never-reported', 'N=%d good=%d session %d: the peer went silent, no error reported within 20 s' % (case['N'], case['good'], session))
                th._sp = True
                break
            th.join(10)
            if th.is_alive():
                out.fail('radio:thread-alive-after-close', 'N=%d good=%d session %d: radio thread still running after close() from the error callback' % (
                    case['N'], case['good'], session))
                th._sp = True
                break
            if problems:
                break           # close() did not get through: the shared radio is still held, nothing more to learn from a second session
            _wait_closed()
        if problems:
            out.fail('radio:close-raised-in-error-callback', '; '.join(problems[:2]))
        per = [sum(1 for s_, _ in reports if s_ == k) for k in range(2)]
        if not out.violations and per != [1, 1]:
            out.fail('linkerror:count', 'N=%d good=%d: error reports per session %r, expected one each' % (case['N'], case['good'], per))
    return out


def error_close_cases(tier):
    for N in (1, 3):
        for good in (0, 4, 15):
            for supports in (True, False):
                yield {'N': N, 'good': good, 'peer_supports': supports}


def shared_cases(tier):
    lossless = [['o']]
    lossy = [['o', 'o', 'u', 'o', 'a'], ['o', 'a', 'o', 'o', 'u', 'u', 'o']]
    t = lambda i: ('traffic', i, 3, 3)   # noqa
    hists = [
        [('open', 0), ('open', 1), t(0), t(1), ('close', 0), ('open', 2), t(1), t(2), t(1)],
        [('open', 0), ('open', 1), ('open', 2), t(2), ('close', 1), ('open', 1), t(2), t(1), t(0)],
        [('open', 0), ('open', 1), ('close', 0), ('open', 0), ('close', 1), ('open', 1), t(0), t(1)],
        [('open', 0), t(0), ('close', 0), ('open', 1), t(1), ('open', 0), t(0), t(1)],
        [('open', 0), ('open', 1), ('open', 2), ('close', 0), ('close', 1), ('open', 0), t(2), t(0), ('open', 1), t(1), t(2)],
    ]
    for h in hists:
        for loss in (lossless, lossy):
            yield {'links': 3, 'ops': h, 'loss': loss}
    # a single link whose k-th dongle transaction is slow but succeeds: the answer must still be attributed to that transmission
    yield {'links': 1, 'ops': [('open', 0), t(0), t(0), t(0)], 'loss': lossless, 'stall': (0, 14, 1.3)}
    yield {'links': 2, 'ops': [('open', 0), ('open', 1), t(0), t(1), t(0), t(1)], 'loss': lossy, 'stall': (1, 16, 1.3)}


@st.composite
def shared_case(draw):
    nl = draw(st.integers(2, 4))
    ops = []
    open_ = set()
    for _ in range(draw(st.integers(4, 14))):
        i = draw(st.integers(0, nl - 1))
        kind = draw(st.sampled_from(['toggle', 'toggle', 'traffic']))
        if kind == 'toggle' or i not in open_:
            if i in open_:
                ops.append(('close', i))
                open_.discard(i)
            else:
                ops.append(('open', i))
                open_.add(i)
        else:
            ops.append(('traffic', i, draw(st.integers(0, 4)), draw(st.integers(0, 4))))
    for i in sorted(open_):
        ops.append(('traffic', i, 2, 2))
    loss = draw(st.lists(st.lists(st.sampled_from(['o', 'o', 'o', 'u', 'a']), min_size=1, max_size=7).map(lambda l: ['o'] + l), min_size=1, max_size=3))
    return {'links': nl, 'ops': ops, 'loss': loss}


def subchecks(tier):
    return [
        Sub('exhaustive', run_link, cases=exhaustive_cases, distinct_by_construction=True),
        Sub('random', run_link, strategy=random_case(), examples={'quick': 400, 'thorough': 20000}),
        Sub('shared-dongle', run_shared, cases=shared_cases, distinct_by_construction=True),
        Sub('error-callback-closes', run_error_close, cases=error_close_cases, distinct_by_construction=True),
        Sub('shared-dongle-random', run_shared, strategy=shared_case(), examples={'quick': 24, 'thorough': 600}),
    ]
