"""C12: flashing writes exactly the image, nowhere else; bounded retry then abort."""
import contextlib
import io
import struct

from hypothesis import strategies as st

from vlib.runner import Outcome, Sub

PROPERTY = 'C12'
LEVEL = 'fault_enumeration'
SHARDS = {'quick': 4, 'thorough': 16}
RULE = ('Hypothesis draws a bootloader geometry (page size from {16,25,32,50,64,256,1024}, buffer pages 1..12, flash pages, start page), '
        'target (stm32/nrf51), optional override page, image length (1 .. >2 buffer-fulls, biased to exact multiples of 25, the page size '
        'and the buffer size and +-1 around them) and a fault plan: for every flash-write attempt one of {ok, lost, wrong-reply, negative (with and without an error code), '
        'late (reply delivered after the timeout, i.e. at the next receive)}. Sub "faults-exhaustive" enumerates ALL fault plans of length '
        '<= 4 (thorough: <= 6) over the first flash-writes of fixed images. The real Bootloader/Cloader run over a scripted link to a '
        'target model (page buffers, flash pages, range checks). Non-trivial = image length not a multiple of the page size with >= 2 '
        'buffer flushes, an exact page/buffer multiple, an oversize image, or at least one injected fault. Images are a byte pattern, optionally with '
        'runs of 0x00 / 0xFF (padding) over a page buffer that starts non-zero. Sub "release-zip" runs the whole Bootloader.flash() of a generated '
        'release zip (stm32 fw, nrf51 fw, nrf51 bootloader+softdevice in any combination, foreign-platform entries) on a two-target device '
        'whose nRF51 start page follows the softdevice in flash after the restart in the middle; programmed pages must lie in the ranges '
        'the images occupy at the start page the target reports at that time, and a completed flash leaves every firmware at that page.')
ASSUMPTIONS = ['target model: load-buffer (0x14) writes bytes at page*page_size+address into the page buffer; flash-write (0x18) programs '
               '`count` buffer pages from buffer page 0 to consecutive flash pages; a late reply means the flash operation itself was executed',
               'receive timeouts are modelled as "nothing available" (the scripted link never blocks)']

TARGETS = {'stm32': 0xFF, 'nrf51': 0xFE}


class _Link:
    """Scripted link to a bootloader target model."""

    def __init__(self, geo, plan):
        self.geo = geo
        self.rx = []
        self.later = []
        self.sent = []
        self.plan = list(plan)
        self.flash_cmds = []     # (target_page, count, plan action)
        self.buffer = bytearray(geo['buffer_pages'] * geo['page_size'])
        self.loads = [0] * len(self.buffer)
        self.flash = {}
        self.coverage = {}
        self.bad = []
        self.after_failure = None
        self.closed = False
        self.deferred = False
        self._queued = None

    def _reply(self, data, late=False):
        from cflib.crtp.crtpstack import CRTPPacket
        pk = CRTPPacket(0xFF, list(data))
        (self.later if late else self.rx).append(pk)

    def send_packet(self, pk):
        if self.deferred:
            # like the radio driver: the packet object is queued and turned into a frame later (here: at the next call on the link), so
            # what goes on the air is what the object holds THEN
            prev, self._queued = self._queued, pk
            if prev is not None:
                self._transmit(prev)
            return
        self._transmit(pk)

    def _flush(self):
        if self._queued is not None:
            prev, self._queued = self._queued, None
            self._transmit(prev)

    def _transmit(self, pk):
        data = bytes(pk.data)
        self.sent.append((pk.header, data))
        if self.later:
            self.rx.extend(self.later)
            self.later = []
        if pk.header != 0xFF:
            self.bad.append('message on header 0x%02x' % pk.header)
        if len(data) > 31:
            self.bad.append('message of %d payload bytes' % len(data))
        if len(data) < 2:
            return
        target, cmd = data[0], data[1]
        g = self.geo
        if cmd == 0x10:
            cpuid = bytes(range(12))
            self._reply(struct.pack('<BBHHHH', target, 0x10, g['page_size'], g['buffer_pages'], g['flash_pages'], g['start_page']) + cpuid +
                        bytes([0x10]))
        elif cmd == 0x12:
            self._reply(bytes([target, 0x12, 4, 16, 1, 64, 7, 128]))
        elif cmd == 0x14:
            if self.after_failure is not None:
                self.after_failure.append('load-buffer')
            page, addr = struct.unpack('<HH', data[2:6])
            body = data[6:]
            base = page * g['page_size'] + addr
            if page >= g['buffer_pages'] or addr + len(body) > g['page_size']:
                self.bad.append('load-buffer page %d address %d len %d outside the page buffer (%d pages of %d)' % (
                    page, addr, len(body), g['buffer_pages'], g['page_size']))
                return
            for k, b in enumerate(body):
                self.buffer[base + k] = b
                self.loads[base + k] += 1
        elif cmd == 0x18:
            if self.after_failure is not None:
                self.after_failure.append('flash-write')
            page_buffer, target_page, count = struct.unpack('<HHH', data[2:8])
            action = self.plan.pop(0) if self.plan else 'ok'
            self.flash_cmds.append((target_page, count, action))
            if action == 'lost-command':
                return
            if action in ('negative', 'negative-noerr'):
                # refused: status 0; the error byte says why, a bootloader may leave it at 0
                self._reply(bytes([target, 0x18, 0, 7 if action == 'negative' else 0]))
                return
            # executed by the target
            if page_buffer != 0 or count > g['buffer_pages']:
                self.bad.append('flash-write from buffer page %d count %d' % (page_buffer, count))
            for b in range(count):
                fp = target_page + b
                ps = g['page_size']
                self.flash[fp] = bytes(self.buffer[b * ps:(b + 1) * ps])
                cov = self.coverage.setdefault(fp, [0] * ps)
                for o in range(ps):
                    cov[o] += self.loads[b * ps + o]
                    self.loads[b * ps + o] = 0
            if action == 'ok':
                self._reply(bytes([target, 0x18, 1, 0]))
            elif action == 'lost':
                pass
            elif action == 'wrong':
                self._reply(bytes([target, 0x10, 1, 0]))
            elif action == 'late':
                self._reply(bytes([target, 0x18, 1, 0]), late=True)

    def receive_packet(self, wait=0):
        self._flush()
        if self.rx:
            return self.rx.pop(0)
        return None

    def close(self):
        self._flush()
        self.closed = True


def run_flash(case):
    from cflib.bootloader import Bootloader, FlashArtifact, Target
    out = Outcome()
    geo = case['geo']
    ps, bp, fpg, sp = geo['page_size'], geo['buffer_pages'], geo['flash_pages'], geo['start_page']
    n = case['length']
    image = bytearray((i * 31 + 7 + (i >> 8)) & 0xff for i in range(n))
    fill = case.get('fill')
    if fill:      # runs of one value (zero padding, erased-flash 0xFF) as real firmware images have them
        val, starts, runlen = fill[:3]
        for a in (starts if n else []):
            a = a % n
            image[a:min(n, a + runlen)] = bytes([val]) * (min(n, a + runlen) - a)
        if fill[3]:
            t = min(n, fill[3])
            image[n - t:] = bytes([val]) * t
        out.feat('image-with-%02x-runs' % val)
    image = bytes(image)
    plan = list(case['plan'])
    start = case['override'] if case['override'] is not None else sp
    fits = n <= (fpg - start) * ps
    npages = (n + ps - 1) // ps
    nflush = (npages + bp - 1) // bp
    faults = [a for a in plan[:nflush * 6] if a != 'ok']
    out.nontrivial = (n % ps != 0 and nflush >= 2) or (n % ps == 0) or not fits or bool(faults)
    out.feat('fits' if fits else 'oversize', 'len-page-multiple' if n % ps == 0 else 'len-partial-page',
             'len-buffer-multiple' if n % (ps * bp) == 0 else 'len-partial-buffer', 'flushes-%d' % min(nflush, 3),
             'target-' + case['target'], 'override' if case['override'] is not None else 'no-override',
             'progress-callback' if case.get('progress') else 'console')
    for a in set(faults):
        out.feat('fault-' + a)
    link = _Link(geo, plan)
    link.deferred = bool(case.get('deferred'))
    out.feat('link-builds-frames-later' if link.deferred else 'link-copies-at-once')
    bl = Bootloader(None)
    if case.get('progress'):
        # a client that shows progress (cfclient, flash_full): errors are then reported through the callback as well
        bl.progress_cb = lambda *a, **k: None
    bl._cload.link = link
    sink = io.StringIO()
    with contextlib.redirect_stdout(sink):
        ok_info = bl._cload.check_link_and_get_info(TARGETS['stm32'])
        bl._cload.request_info_update(TARGETS['nrf51'])
    if not ok_info:
        out.fail('flash:info', 'get-info failed')
        return out
    t = bl._cload.targets[TARGETS[case['target']]]
    if (t.page_size, t.buffer_pages, t.flash_pages, t.start_page) != (ps, bp, fpg, sp):
        out.fail('flash:info-parse', 'target says %r, parsed %r' % (geo, (t.page_size, t.buffer_pages, t.flash_pages, t.start_page)))
        return out
    if case.get('prior'):
        # the same Bootloader object has an aborted flashing behind it (its flash-write was refused): the next one starts from scratch
        link.plan = ['negative']
        prior_img = bytes((i * 13 + 1) & 0xff for i in range(case['prior']))
        try:
            with contextlib.redirect_stdout(sink):
                bl._internal_flash(FlashArtifact(prior_img, Target('cf2', case['target'], 'fw', [], []), None), page_override=case['override'])
        except Exception:  # noqa
            pass
        link._flush()
        aborted = any(a == 'negative' for _, _, a in link.flash_cmds)
        out.feat('after-an-aborted-flashing' if aborted else 'after-a-refused-image')
        del link.rx[:]
        link.later = []
        link.plan = list(plan)
        link.flash_cmds = []
        link.flash = {}
        link.coverage = {}
        link.loads = [0] * len(link.buffer)
        link.bad = []
    pre = len(link.sent)
    art = FlashArtifact(image, Target('cf2', case['target'], 'fw', [], []), None)
    raised = None
    try:
        with contextlib.redirect_stdout(sink):
            bl._internal_flash(art, page_override=case['override'])
    except Exception as e:  # noqa
        raised = e
    link._flush()
    msgs = link.sent[pre:]
    if n == 0:
        # an empty image occupies no page: nothing may be written; whether it is refused or accepted is not stated
        out.feat('empty-image-refused' if raised is not None else 'empty-image-accepted')
        out.nontrivial = True
        if link.flash_cmds:
            out.fail('flash:page-range:empty-image', 'geometry %r target %s override %r: empty image, flash-write commands %r' % (geo, case['target'], case['override'], link.flash_cmds))
        return out
    desc = 'geometry %r target %s override %r length %d plan %r' % (geo, case['target'], case['override'], n, case['plan'][:12])
    for b in link.bad:
        out.fail('flash:message:' + b.split(' ')[0], '%s: %s' % (desc, b))
    if not fits:
        if raised is None:
            out.fail('flash:oversize-accepted', desc)
        if msgs:
            out.fail('flash:oversize-sent', '%s: %d messages sent before refusing' % (desc, len(msgs)))
        return out
    # pages named by flash-write commands
    lo, hi = start, start + npages
    for tp, cnt, action in link.flash_cmds:
        if cnt < 1 or tp < lo or tp + cnt > hi or tp + cnt > fpg:
            out.fail('flash:page-range', '%s: flash-write of pages [%d,%d) outside image pages [%d,%d) / flash size %d' % (desc, tp, tp + cnt, lo, hi, fpg))
    # retry bound and abort behaviour: group consecutive identical commands
    groups = []
    for tp, cnt, action in link.flash_cmds:
        if groups and groups[-1][0] == (tp, cnt):
            groups[-1][1].append(action)
        else:
            groups.append([(tp, cnt), [action]])
    # reference model of the retry procedure on a per-command clean reply queue: one reply is examined per attempt
    expect_fail_at = None
    for gi, ((tp, cnt), actions) in enumerate(groups):
        if len(actions) > 6:
            out.fail('flash:retry-unbounded', '%s: flash-write of page %d sent %d times' % (desc, tp, len(actions)))
        q = []
        late = False
        verdict = None
        for a_ in actions[:6]:
            if late:
                q.append('pos')
                late = False
            if a_ == 'ok':
                q.append('pos')
            elif a_ in ('negative', 'negative-noerr'):
                q.append('neg')
            elif a_ == 'wrong':
                q.append('other')
            elif a_ == 'late':
                late = True
            r = q.pop(0) if q else None
            if r == 'pos':
                verdict = True
                break
            if r == 'neg':
                verdict = False
                break
        if verdict is not True:
            expect_fail_at = gi
            break
    if expect_fail_at is not None:
        if raised is None:
            out.fail('flash:continued-after-failure', '%s: flash-write %d got no positive reply (%r) but flashing reported success' % (
                desc, expect_fail_at, [g[1] for g in groups]))
        elif expect_fail_at != len(groups) - 1:
            out.fail('flash:continued-after-failure', '%s: flash-writes continued after the failed one: %r' % (desc, [g[1] for g in groups]))
        return out
    if raised is not None and groups and len(groups[-1][1]) >= 6:
        # positive reply only on the last permitted attempt: the pinned library reports this as a failure (retry counter
        # already exhausted). The property only requires a bounded retry followed by an abort, so both outcomes are accepted.
        out.feat('abort-on-last-attempt-success')
        return out
    if raised is not None and not groups:
        out.fail('flash:fitting-image-refused', '%s raised %r before any flash-write although the image fits' % (desc, raised))
        return out
    if raised is not None:
        out.fail('flash:spurious-abort', '%s raised %r although every flash-write was answered positively (%r)' % (
            desc, raised, [g[1] for g in groups]))
        return out
    # success: flash content and coverage
    got = bytearray()
    for p in range(lo, hi):
        got += link.flash.get(p, b'\x00' * ps)
    if bytes(got[:n]) != image:
        first = next(i for i in range(n) if got[i] != image[i])
        out.fail('flash:content', '%s: flash differs from the image at byte %d (page %d): groups %r' % (desc, first, lo + first // ps, [g[0] for g in groups]))
    for p in link.flash:
        if p < lo or p >= hi:
            out.fail('flash:page-range', '%s: page %d programmed, image occupies [%d,%d)' % (desc, p, lo, hi))
    for i in range(n):
        c = link.coverage.get(lo + i // ps, [0] * ps)[i % ps]
        if c != 1:
            out.fail('flash:coverage', '%s: image byte %d uploaded %d times' % (desc, i, c))
            break
    tail = npages * ps - n
    if tail:
        cov = link.coverage.get(hi - 1, [0] * ps)
        if any(cov[ps - tail:]):
            out.fail('flash:coverage-beyond-image', '%s: bytes beyond the image uploaded' % desc)
    return out


_ACTIONS = ['ok', 'lost', 'lost-command', 'wrong', 'negative', 'negative-noerr', 'late']


@st.composite
def flash_case(draw):
    ps = draw(st.sampled_from([16, 25, 25, 32, 50, 64, 64, 256, 1024]))
    bp = draw(st.integers(1, 12 if ps <= 64 else 4))
    sp = draw(st.integers(0, 20))
    override = draw(st.one_of(st.none(), st.none(), st.integers(0, 30)))
    start = override if override is not None else sp
    buf = ps * bp
    base = draw(st.sampled_from([1, 25, 50, ps, 2 * ps, buf, 2 * buf, 3 * buf, buf + ps, 2 * buf + ps, draw(st.integers(1, 3 * buf))]))
    n = max(1, base + draw(st.sampled_from([0, 0, 0, -1, 1, -24, 24, 25, -25])))
    if draw(st.integers(0, 24)) == 0:
        n = 0
    need = (n + ps - 1) // ps
    slack = draw(st.sampled_from([0, 0, 1, 5, -1, -2]))
    fpg = max(start + 1, start + need + slack)
    plan = draw(st.one_of(st.just([]), st.lists(st.sampled_from(_ACTIONS + ['ok'] * 4), max_size=14)))
    return {'geo': {'page_size': ps, 'buffer_pages': bp, 'flash_pages': fpg, 'start_page': sp}, 'target': draw(st.sampled_from(['stm32', 'nrf51'])),
            'override': override, 'length': n, 'plan': plan, 'progress': draw(st.booleans()), 'deferred': draw(st.sampled_from([False, False, True])),
            'prior': draw(st.sampled_from([None, None, None, 1, ps, ps + 1, buf, buf + 1, 2 * buf + ps])),
            'fill': draw(st.one_of(st.none(), st.tuples(st.sampled_from([0, 0, 0xFF]), st.lists(st.integers(0, 1 << 16), max_size=4),
                                                         st.sampled_from([1, 24, 25, 26, 60, 200]), st.sampled_from([0, 1, 24, 25, 30, 100, 2000]))))}


class _Clock:
    """stands in for the `time` module inside the bootloader modules: waiting costs no real time"""

    def __init__(self):
        self.now = 1000.0

    def time(self):
        self.now += 0.01
        return self.now

    def sleep(self, d):
        self.now += max(0.0, d)


class _Device:
    """A Crazyflie 2.x in bootloader mode: two targets behind one link, the nRF51 layout follows the softdevice that is in flash."""

    def __init__(self, stm_geo, nrf_geo, nrf_version, blsd):
        self.t = {0xFF: _Link(stm_geo, []), 0xFE: _Link(nrf_geo, [])}
        self.rx = []
        for l in self.t.values():
            l.rx = self.rx
        self.nrf_version = nrf_version
        self.blsd = blsd            # None or {'image', 'start_page' (of the layout it brings), 'version'}
        self.bad = []
        self.resets = []
        self.links = 0

    def info(self, target):
        g = self.t[target].geo
        data = struct.pack('<BBHHHH', target, 0x10, g['page_size'], g['buffer_pages'], g['flash_pages'], g['start_page']) + bytes(range(12)) + bytes([0x10])
        if target == 0xFE and self.nrf_version is not None:
            data += struct.pack('<HBB', *self.nrf_version)
        return data

    def reboot(self):
        # the bootloader that starts is the one in flash now
        nrf = self.t[0xFE]
        b = self.blsd
        if b is not None:
            ps = nrf.geo['page_size']
            first = nrf.geo['flash_pages'] - len(b['image']) // ps
            got = b''.join(nrf.flash.get(first + k, b'') for k in range(len(b['image']) // ps))
            if got == b['image']:
                nrf.geo['start_page'] = b['start_page']
                self.nrf_version = b['version']
                self.resets.append('new-bootloader')
                return
        self.resets.append('same-bootloader')


class _DevLink:
    def __init__(self, dev, uri='radio://0/0/2M/E7E7E7E7E7'):
        self.dev = dev
        self.uri = uri
        self.closed = False
        dev.links += 1

    def scan_selected(self, uris):
        return (uris[1],)

    def send_packet(self, pk):
        from cflib.crtp.crtpstack import CRTPPacket
        d = self.dev
        data = bytes(pk.data)
        if self.closed:
            d.bad.append('message %s on a closed link' % data[:2].hex())
            return
        if pk.header != 0xFF or len(data) > 31:
            d.bad.append('message on header 0x%02x with %d bytes' % (pk.header, len(data)))
        if len(data) < 2 or data[0] not in d.t:
            return
        target, cmd = data[0], data[1]
        if cmd == 0x10:
            d.rx.append(CRTPPacket(0xFF, list(d.info(target))))
        elif cmd == 0xFF:
            d.rx.append(CRTPPacket(0xFF, [target, 0xFF, 0x11, 0x22, 0x33, 0x44, 0x55]))
        elif cmd == 0xF0:
            del d.rx[:]
            if len(data) > 2 and data[2] == 0:
                d.reboot()
            else:
                d.resets.append('firmware')
        else:
            d.t[target].send_packet(pk)

    def receive_packet(self, wait=0):
        if self.closed:
            return None
        if self.dev.rx:
            return self.dev.rx.pop(0)
        return None

    def close(self):
        self.closed = True


def _img(n, salt):
    return bytes((i * 29 + salt * 53 + 11 + (i >> 7)) & 0xff for i in range(n))


def run_release(case):
    """Bootloader.flash() of a release zip on a two-target device, including the nRF51 bootloader+softdevice update with the restart
    into the new bootloader in the middle."""
    import json
    import os
    import tempfile
    import zipfile
    import cflib.bootloader as blmod
    import cflib.bootloader.cloader as clmod
    import cflib.crtp
    out = Outcome()
    stm_geo, nrf_geo = dict(case['stm']), dict(case['nrf'])
    s_initial = nrf_geo['start_page']
    files = {}
    blobs = {}
    arts = case['artifacts']
    blsd = None
    if 'blsd' in arts:
        a = arts['blsd']
        img = _img(a['pages'] * nrf_geo['page_size'], 3)
        blobs['nrf51-blsd.bin'] = img
        files['nrf51-blsd.bin'] = {'platform': 'cf2', 'target': 'nrf51', 'type': 'bootloader+softdevice', 'release': '%d.%d.%d' % tuple(a['release']),
                                   'repository': 'x', 'provides': ['sd-' + a['sd']], 'requires': []}
        blsd = {'image': img, 'start_page': 108 if a['sd'] == 's130' else 88, 'version': tuple(a['release'])}
    if 'nrf' in arts:
        blobs['nrf51-fw.bin'] = _img(arts['nrf']['length'], 5)
        files['nrf51-fw.bin'] = {'platform': 'cf2', 'target': 'nrf51', 'type': 'fw', 'release': '2024.1', 'repository': 'x',
                                 'provides': [], 'requires': ['sd-' + arts['nrf']['sd']]}
    if 'stm' in arts:
        blobs['stm32-fw.bin'] = _img(arts['stm']['length'], 7)
        files['stm32-fw.bin'] = {'platform': 'cf2', 'target': 'stm32', 'type': 'fw', 'release': '2024.1', 'repository': 'x', 'provides': [], 'requires': []}
    if case.get('foreign'):
        blobs['other.bin'] = _img(300, 9)
        files['other.bin'] = {'platform': case['foreign'], 'target': 'stm32' if case['foreign'] == 'cf1' else 'bcAI:gap8', 'type': 'fw', 'release': '1',
                              'repository': 'x', 'provides': [], 'requires': []}
    order = list(files)
    if case.get('reverse'):
        order.reverse()
    dev = _Device(stm_geo, nrf_geo, tuple(case['nrf_version']) if case['nrf_version'] else None, blsd)
    clock = _Clock()
    tmp = tempfile.mkdtemp(prefix='verif-c12-')
    zpath = os.path.join(tmp, 'release.zip')
    with zipfile.ZipFile(zpath, 'w') as z:
        z.writestr('manifest.json', json.dumps({'version': 2, 'files': {k: files[k] for k in order}}))
        for k in order:
            z.writestr(k, blobs[k])
    saved = (blmod.time, clmod.time, cflib.crtp.get_link_driver)
    blmod.time = clmod.time = clock
    cflib.crtp.get_link_driver = lambda uri, *a, **k: _DevLink(dev, uri.split('?')[0])
    desc = 'stm %r nrf %r version %r zip %r' % (case['stm'], case['nrf'], case['nrf_version'], {k: v for k, v in arts.items()})
    raised = None
    sink = io.StringIO()
    try:
        bl = blmod.Bootloader(None)
        if case.get('progress'):
            bl.progress_cb = lambda *a, **k: None
        with contextlib.redirect_stdout(sink):
            if not bl.start_bootloader(warm_boot=False):
                out.fail('flash:info', 'bootloader not found on the scripted link')
                return out
            try:
                bl.flash(zpath, [])
            except Exception as e:  # noqa
                raised = e
    finally:
        blmod.time, clmod.time, cflib.crtp.get_link_driver = saved
        import shutil
        shutil.rmtree(tmp, ignore_errors=True)
    stm, nrf = dev.t[0xFF], dev.t[0xFE]
    s_final = nrf.geo['start_page']
    out.feat('zip-' + '+'.join(sorted(arts)), 'sd-%d-to-%d' % (s_initial, s_final), 'raised' if raised else 'completed',
             *(['restart-into-' + r for r in dev.resets]))
    for b in dev.bad + stm.bad + nrf.bad:
        out.fail('flash:message:' + b.split(' ')[0], '%s: %s' % (desc, b))
    # pages that may be programmed at all
    allowed = {0xFF: set(), 0xFE: set()}
    if 'stm' in arts:
        n = arts['stm']['length']
        allowed[0xFF] |= set(range(stm.geo['start_page'], stm.geo['start_page'] + (n + stm.geo['page_size'] - 1) // stm.geo['page_size']))
    nps = nrf.geo['page_size']
    if 'nrf' in arts:
        n = arts['nrf']['length']
        # before the restart into another bootloader nothing of the firmware may be written, after it the new start page counts
        allowed[0xFE] |= set(range(s_final, s_final + (n + nps - 1) // nps))
    if blsd is not None:
        allowed[0xFE] |= set(range(nrf.geo['flash_pages'] - len(blsd['image']) // nps, nrf.geo['flash_pages']))
        allowed[0xFE].add(s_initial)     # first firmware page erased so that the old firmware is not started half-overwritten
    for tid, l in ((0xFF, stm), (0xFE, nrf)):
        for pg in sorted(l.flash):
            if pg not in allowed[tid] or pg >= l.geo['flash_pages']:
                out.fail('flash:page-range', '%s: page %d of target %02x programmed, allowed %r (start page now %d); flash-writes %r' % (
                    desc, pg, tid, sorted(allowed[tid])[:40], l.geo['start_page'], l.flash_cmds[:12]))
                break
    if raised is None:
        for key, tid, l in (('stm', 0xFF, stm), ('nrf', 0xFE, nrf)):
            if key not in arts:
                continue
            image = blobs['stm32-fw.bin' if key == 'stm' else 'nrf51-fw.bin']
            ps = l.geo['page_size']
            sp = l.geo['start_page']
            got = b''.join(l.flash.get(sp + k, b'\x00' * ps) for k in range((len(image) + ps - 1) // ps))
            if got[:len(image)] != image:
                first = next(i for i in range(len(image)) if got[i:i + 1] != image[i:i + 1])
                out.fail('flash:content', '%s: %s firmware not at the start page %d the target reports: differs at byte %d; flash-writes %r' % (
                    desc, key, sp, first, l.flash_cmds[:12]))
    out.nontrivial = bool(dev.resets) or len(arts) >= 2
    return out


@st.composite
def release_case(draw):
    nps = draw(st.sampled_from([64, 256, 1024]))
    sps = draw(st.sampled_from([64, 256, 1024]))
    arts = {}
    which = draw(st.sampled_from([('blsd', 'nrf', 'stm'), ('blsd', 'nrf', 'stm'), ('blsd', 'nrf'), ('nrf', 'stm'), ('blsd',), ('blsd', 'stm'), ('nrf',), ('stm',)]))
    cur_sd = draw(st.sampled_from(['s110', 's130']))
    if 'blsd' in which:
        arts['blsd'] = {'pages': draw(st.integers(1, 4)), 'sd': draw(st.sampled_from(['s110', 's130', 's130'])),
                        'release': [draw(st.sampled_from([1, 2, 2023])), draw(st.integers(0, 3)), draw(st.integers(0, 3))]}
    if 'nrf' in which:
        arts['nrf'] = {'length': draw(st.one_of(st.integers(1, 4 * nps), st.sampled_from([nps, 2 * nps, 3 * nps, nps + 25, 2 * nps + 1]))),
                       'sd': draw(st.sampled_from(['s130', 's130', arts['blsd']['sd'] if 'blsd' in arts else cur_sd, 's110']))}
    sbp = draw(st.integers(1, 6))
    if 'stm' in which:
        arts['stm'] = {'length': draw(st.one_of(st.integers(1, 3 * sps * sbp), st.sampled_from([sps, sps * sbp, 2 * sps * sbp, sps * sbp + 1])))}
    nrf_pages = 108 + 4 + 4 + draw(st.integers(0, 6))
    ssp = draw(st.integers(0, 16))
    stm_pages = ssp + (arts.get('stm', {'length': 1})['length'] + sps - 1) // sps + draw(st.integers(0, 3))
    ver = draw(st.one_of(st.none(), st.tuples(st.sampled_from([1, 2, 2023]), st.integers(0, 3), st.integers(0, 3))))
    if ver is None and 'blsd' in arts and draw(st.booleans()):
        ver = tuple(arts['blsd']['release'])
    return {'stm': {'page_size': sps, 'buffer_pages': sbp, 'flash_pages': stm_pages, 'start_page': ssp},
            'nrf': {'page_size': nps, 'buffer_pages': draw(st.integers(1, 3)), 'flash_pages': nrf_pages, 'start_page': 88 if cur_sd == 's110' else 108},
            'nrf_version': list(ver) if ver else None, 'artifacts': arts, 'foreign': draw(st.sampled_from([None, None, 'cf1', 'deck'])),
            'reverse': draw(st.booleans()), 'progress': draw(st.booleans())}


def fault_cases(tier):
    import itertools
    depth = 4 if tier == 'quick' else 6
    acts = ['ok', 'lost', 'wrong', 'negative', 'negative-noerr', 'late'] if tier == 'quick' else _ACTIONS
    for (ps, bp, n) in ((16, 2, 70), (25, 1, 50)):
        geo = {'page_size': ps, 'buffer_pages': bp, 'flash_pages': 40, 'start_page': 3}
        for k in range(1, depth + 1):
            for plan in itertools.product(acts, repeat=k):
                yield {'geo': geo, 'target': 'stm32', 'override': None, 'length': n, 'plan': list(plan), 'progress': (k + len(plan[0])) % 2 == 0}


def long_fault_cases(tier):
    """one kind of fault repeated 5, 6, 7 and 12 times in a row (around and beyond the retry budget), at the first and at a later flash-write"""
    for (ps, bp, n) in ((16, 2, 70), (25, 1, 50)):
        geo = {'page_size': ps, 'buffer_pages': bp, 'flash_pages': 40, 'start_page': 3}
        for act in ('lost', 'lost-command', 'wrong', 'negative', 'negative-noerr', 'late'):
            for reps in (5, 6, 7, 12):
                for lead in ([], ['ok']):
                    yield {'geo': geo, 'target': 'stm32', 'override': None, 'length': n, 'plan': lead + [act] * reps, 'progress': reps % 2 == 0}


def boundary_cases(tier):
    for (ps, bp, sp) in ((16, 2, 3), (1024, 10, 16), (25, 1, 0)):
        geo = {'page_size': ps, 'buffer_pages': bp, 'flash_pages': 128, 'start_page': sp}
        for target in ('stm32', 'nrf51'):
            for override in (None, 20):
                for progress in (False, True):
                    yield {'geo': geo, 'target': target, 'override': override, 'length': 0, 'plan': [], 'progress': progress}
            for n in (1, 25, 26, ps, ps + 1, ps * bp, ps * bp + 26, 2 * ps * bp + ps):
                yield {'geo': geo, 'target': target, 'override': None, 'length': n, 'plan': [], 'progress': False, 'deferred': True}
                for prior in (1, ps + 1, ps * bp + 1):
                    yield {'geo': geo, 'target': target, 'override': None, 'length': n, 'plan': [], 'progress': False, 'prior': prior}


def subchecks(tier):
    return [
        Sub('boundaries', run_flash, cases=boundary_cases, distinct_by_construction=True),
        Sub('faults-repeated', run_flash, cases=long_fault_cases, distinct_by_construction=True),
        Sub('flash', run_flash, strategy=flash_case(), examples={'quick': 1200, 'thorough': 60000}),
        Sub('faults-exhaustive', run_flash, cases=fault_cases, distinct_by_construction=True),
        Sub('release-zip', run_release, strategy=release_case(), examples={'quick': 150, 'thorough': 6000}),
    ]
