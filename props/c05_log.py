"""C05: log blocks created as configured; log data decodes to the device's values; flags follow acks; re-add stable; SyncLogger."""
import math
import struct

import numpy as np
from hypothesis import strategies as st

from vlib import cfharness
from vlib.dsched import Deadlock, Horizon
from vlib.runner import Outcome, Sub
from vlib.simcf import Net, SimEnv

PROPERTY = 'C05'
LEVEL = 'exploration'
SHARDS = {'quick': 4, 'thorough': 16}
RULE = ('A real Crazyflie is connected (deterministic scheduler, virtual time) to a simulated device with a generated log table. Hypothesis '
        'draws variable lists (0..26 variables, every fetch type, explicit and default typing, raw-memory variables, payload sizes clustered '
        'at 24..28 bytes, counts at the create/append split points 9, 10, 18, 19, 27), periods from {-10, 0, 5, 9.99, 10, 20, 2540, 2545, '
        '2550, 2560, 5000} and random, names present/absent, and histories over {start, stop, delete, emit data with random/extreme raw '
        'bytes, reconnect + re-add}; a second sub-check runs a SyncLogger consumer on its own logical thread. Oracles: acceptance predicate; '
        'no transmission during a rejected add_config; independent decoding of the create/append messages (firmware rule (len-2)//3 items '
        'per message); per-packet timestamp/value equality with an independent decoder (numpy float16 for FP16); flags vs device block '
        'state; variable list before/after re-add. Non-trivial = >= 10 variables (multi-message), payload within 2 bytes of 26, a '
        'rejected configuration, or a re-add. Directed: payloads of exactly 24 / 25 / 26 bytes with data flowing; the log table may be renumbered '
        'between the two sessions of a re-add (the create messages of the second session are decoded against the new numbering).')
ASSUMPTIONS = ['block-creation messages are decoded for protocol >= 4 only; legacy protocol is exercised only where the block fits one packet',
               'periods of 2541..2549 ms are left unconstrained', 'variable names within one configuration are unique',
               'flags are compared with the device block state within one session only (the device forgets blocks on reconnect)']

TYPES = {1: ('uint8_t', 1), 2: ('uint16_t', 2), 3: ('uint32_t', 4), 4: ('int8_t', 1), 5: ('int16_t', 2), 6: ('int32_t', 4), 7: ('float', 4), 8: ('FP16', 2)}


def _ref_decode(t, b):
    if t in (1, 2, 3):
        return int.from_bytes(b, 'little', signed=False)
    if t in (4, 5, 6):
        return int.from_bytes(b, 'little', signed=True)
    if t == 7:
        return struct.unpack('<f', b)[0]
    return float(np.frombuffer(b, dtype='<f2')[0])


def _eq(a, b):
    if isinstance(a, float) and isinstance(b, float):
        return (math.isnan(a) and math.isnan(b)) or (a == b and math.copysign(1, a) == math.copysign(1, b))
    return a == b and type(a) is type(b)


def make_spec(case):
    toc = [{'group': 'lg%d' % (i // 5), 'name': 'v%d' % i, 'type': t} for i, t in enumerate(case['toc_types'])]
    return {'version': case['version'], 'log_toc': toc, 'param_toc': [{'group': 'p', 'name': 'x', 'type': 8, 'value': 1}], 'mems': []}


def _build_config(case, spec):
    from cflib.crazyflie.log import LogConfig
    lc = LogConfig('blk', case['period_ms'])
    toc = spec['log_toc']
    expected = []      # (name, fetch type, stored nibble, toc index or None, kind)
    size = 0
    all_known = True
    has_mem = False
    for v in case['vars']:
        if v['kind'] == 'mem':
            ft = v['fetch'] or 7
            lc.add_memory('mem%d' % len(expected), TYPES[ft][0], TYPES[v.get('stored') or ft][0], v.get('address', 0x20000000))
            expected.append(('mem%d' % len(expected), ft, v.get('stored') or ft, None, 'mem'))
            size += TYPES[ft][1]
            has_mem = True
            continue
        idx = v['idx']
        if idx < len(toc):
            name = '%s.%s' % (toc[idx]['group'], toc[idx]['name'])
            tt = toc[idx]['type']
        else:
            name = 'nosuch.var%d' % idx
            tt = None
            all_known = False
        if any(e[0] == name for e in expected):
            continue
        if v['fetch']:
            lc.add_variable(name, TYPES[v['fetch']][0])
            ft = v['fetch']
        else:
            lc.add_variable(name)
            ft = tt
        expected.append((name, ft, ft, idx if tt is not None else None, 'toc'))
        if ft is not None:
            size += TYPES[ft][1]
    return lc, expected, size, all_known, has_mem


def run_log(case):
    out = Outcome()
    spec = make_spec(case)
    net = Net(needs_resending=False, delays=case.get('delays', []))
    v2 = case['version'] >= 4
    with SimEnv(spec, net, case.get('schedule'), horizon=200.0) as env:
        s = env.s
        cf, rec = cfharness.make_cf(env)
        try:
            if not cfharness.connect(env, cf, rec, wait_for='fully_connected', timeout=60.0):
                out.fail('log:connect', 'events %r' % rec.names())
                return out
        except (Deadlock, Horizon) as e:
            out.fail('log:connect-hang', repr(e)[:300])
            return out
        dev = env.device
        link = env.world.links[0]
        if case.get('prefix_after_connect') is not None:
            # systematic single preemptions: the k-th scheduling decision from here on goes to another thread
            s.prefix = list(case['prefix_after_connect'])
            s.ci = 0
        lc, expected, size, all_known, has_mem = _build_config(case, spec)
        period = case['period_ms']
        must_accept = all_known and size <= 26 and 10 <= period <= 2540
        must_reject = (not all_known) or size > 26 or period < 10 or period >= 2550
        desc = 'v%d period=%r size=%d vars=%r' % (case['version'], period, size, [(e[0], e[1], e[4]) for e in expected])
        flags = []
        lc.added_cb.add_callback(lambda *a: flags.append(('added', a[-1], s.now)))
        lc.started_cb.add_callback(lambda *a: flags.append(('started', a[-1], s.now)))
        samples = []
        kept = []       # the very objects handed to the callback, to see that later samples do not change earlier ones
        lc.data_received_cb.add_callback(lambda ts, data, blk: (samples.append((ts, dict(data), blk)), kept.append((data, dict(data)))))
        n_tx = len(link.tx)
        accepted = True
        try:
            cf.log.add_config(lc)
        except (KeyError, AttributeError) as e:
            accepted = False
        if len(link.tx) != n_tx:
            out.fail('log:add-config-transmits', '%s: %d packets sent by add_config' % (desc, len(link.tx) - n_tx))
        near = abs(size - 26) <= 2
        out.feat('accepted' if accepted else 'rejected', 'vars-%s' % ('0' if not expected else '1-9' if len(expected) < 10 else '10-18' if len(expected) < 19 else '19+'),
                 'near-26' if near else 'not-near-26', 'v2' if v2 else 'legacy', 'has-mem' if has_mem else 'toc-only')
        out.nontrivial = len(expected) >= 10 or near or not accepted or case['readd']
        if accepted and must_reject:
            why = 'unknown-name' if not all_known else 'size' if size > 26 else 'period'
            out.fail('log:accepted-invalid:' + why, desc)
            return out
        if not accepted and must_accept:
            out.fail('log:rejected-valid', desc)
            return out
        if not accepted:
            # a rejected configuration stays rejected when it is offered again
            try:
                cf.log.add_config(lc)
                out.fail('log:rejected-then-accepted', '%s: the second add_config of the same rejected configuration was accepted with variables %r' % (
                    desc, [v.name for v in lc.variables]))
            except (KeyError, AttributeError):
                pass
            # a caller that swallowed the rejection and uses the configuration anyway: still nothing is sent
            for meth in ('start', 'stop', 'delete'):
                try:
                    getattr(lc, meth)()
                except Exception:  # noqa
                    pass
            s.sleep(0.5)
            if len(link.tx) != n_tx and not any(p == 15 for t, p, c, d, cl in link.tx[n_tx:]):
                out.fail('log:add-config-transmits', desc)
            # only pings may have been sent meanwhile
            if any(p == 5 for t, p, c, d, cl in link.tx[n_tx:]):
                out.fail('log:rejected-config-transmits', '%s: log port traffic after a rejected add_config' % desc)
            return out
        if not v2 and len(expected) > 14:
            out.feat('excluded-legacy-multi-packet')
            return out
        first_vars = [(v.name, v.fetch_as, v.stored_as, v.type) for v in lc.variables]
        if sorted((v.name, v.fetch_as) for v in lc.variables) != sorted((e[0], e[1]) for e in expected):
            out.fail('log:variable-list', '%s: configuration holds %r' % (desc, [(v.name, v.fetch_as) for v in lc.variables]))
        # ---------------- history
        bid = lc.id
        bids = [bid]
        ts_counter = [case.get('ts0', 0)]
        delivered = []
        try:
            for step in case['history']:
                k = step['op']
                if k == 'start':
                    try:
                        lc.start()
                    except TypeError as e:
                        if has_mem:
                            out.fail('log:create-raises:memory-variable', '%s: %r' % (desc, e))
                            return out
                        raise
                elif k == 'stop':
                    lc.stop()
                elif k == 'delete':
                    lc.delete()
                elif k == 'add':
                    # the same configuration used for another session on the same connection (after it was deleted)
                    if bid not in dev.blocks and not lc.added:
                        cf.log.add_config(lc)
                        bid = lc.id
                        bids.append(bid)
                        out.feat('readded-same-connection')
                        again = [(v.name, v.fetch_as, v.stored_as, v.type) for v in lc.variables]
                        if again != first_vars:
                            out.fail('log:readd-changes-variables', '%s: %d variables before, %d after adding again: %r' % (desc, len(first_vars), len(again), [a[0] for a in again]))
                elif k == 'emit':
                    s.sleep(0.05)
                    blk = dev.blocks.get(bid)
                    if blk and blk['started']:
                        body = b''
                        vals = {}
                        rb = bytes((step['seed'] * 131 + 17 * i + (i * i)) & 0xff for i in range(64))
                        if step.get('extreme'):
                            rb = bytes([[0x00, 0xff, 0x80, 0x7f][(step['seed'] + i) % 4] for i in range(64)])
                        pos = 0
                        for (tb, vid) in blk['vars']:
                            sz = TYPES[tb & 0xf][1]
                            chunk = rb[pos:pos + sz]
                            pos += sz
                            body += chunk
                            te = spec['log_toc'][vid]
                            # (a block can hold a variable twice when start() was called again before the first acknowledgement:
                            # the library reads the first occurrence)
                            vals.setdefault('%s.%s' % (te['group'], te['name']), _ref_decode(tb & 0xf, chunk))
                        ts = step.get('ts', ts_counter[0]) & 0xFFFFFF
                        ts_counter[0] += 1 + step['seed'] * 1000
                        link.deliver((5, 2, bytes([bid, ts & 0xff, (ts >> 8) & 0xff, (ts >> 16) & 0xff]) + body))      # link latency, in order with the acknowledgements
                        delivered.append((ts, vals))
                s.sleep(step.get('gap', 0.2))
            s.sleep(1.0)
        except (Deadlock, Horizon) as e:
            out.fail('log:hang', '%s: %s' % (desc, repr(e)[:300]))
            return out
        # ---------------- block creation messages (v2)
        msgs = [d for t, p, c, d, cl in link.tx[n_tx:] if p == 5 and c == 1 and d[0] in (0, 1, 6, 7)]
        if any(len(m) > 30 for m in msgs):
            out.fail('log:message-too-long', '%s: %r' % (desc, [len(m) for m in msgs]))
        # group messages into create sequences: a create message starts a sequence
        seqs = []
        for m in msgs:
            if m[0] in (0, 6):
                seqs.append([m])
            elif seqs:
                seqs[-1].append(m)
            else:
                out.fail('log:append-before-create', '%s: %s' % (desc, m.hex()))
        for seq in seqs:
            items = []
            for m in seq:
                if m[1] not in bids:
                    out.fail('log:block-id', '%s: message for block %d, config ids %r' % (desc, m[1], bids))
                body = m[2:]
                step_ = 3 if v2 else 2
                if (m[0] in (6, 7)) != v2:
                    out.fail('log:wrong-protocol-command', '%s: command %d on %s' % (desc, m[0], 'v2' if v2 else 'legacy'))
                for k in range(len(body) // step_):
                    tb = body[k * step_]
                    vid = body[k * step_ + 1] | (body[k * step_ + 2] << 8) if v2 else body[k * step_ + 1]
                    items.append((tb, vid))
            byname = dict((e[0], e) for e in expected)
            want = [((byname[v.name][2] << 4) | byname[v.name][1], byname[v.name][3]) for v in lc.variables if v.name in byname]
            if not has_mem and items != want:
                out.fail('log:create-items', '%s: device decoded %r, configuration is %r (messages %r)' % (desc, items, want, [m.hex() for m in seq]))
                break
        # ---------------- data
        if [(ts, v) for ts, v, b in samples] != delivered and not all(
                a[0] == b[0] and set(a[1]) == set(b[1]) and all(_eq(a[1][k], b[1][k]) for k in a[1]) for a, b in zip([(ts, v) for ts, v, b in samples], delivered)) \
                or len(samples) != len(delivered):
            out.fail('log:data-decode', '%s: device sent %r, callbacks got %r' % (desc, delivered[:3], [(ts, v) for ts, v, b in samples][:3]))
        if any(b is not lc for ts, v, b in samples):
            out.fail('log:data-wrong-block', desc)
        for obj, snap in kept:
            if set(obj) != set(snap) or any(not _eq(obj[k_], snap[k_]) for k_ in snap):
                out.fail('log:sample-changed-afterwards', '%s: a sample delivered as %r later reads %r' % (desc, snap, dict(obj)))
                break
        # ---------------- flags vs device state
        blk = dev.blocks.get(bid)
        if not has_mem:
            if lc.added != (blk is not None) or lc.started != bool(blk and blk['started']):
                out.fail('log:flags', '%s history %r: added=%r started=%r, device block %r' % (
                    desc, [h['op'] for h in case['history']], lc.added, lc.started, None if blk is None else blk['started']))
            # the last callback of each kind reports the current state
            last = {}
            for kind, val, t in flags:
                if isinstance(val, bool):
                    last[kind] = val
            if last.get('added', False) != lc.added or (last.get('started', False) != lc.started and lc.started):
                out.fail('log:flag-callbacks-missing', '%s: callbacks %r, properties added=%r started=%r' % (desc, flags, lc.added, lc.started))
        # ---------------- reconnect and re-add
        if case['readd']:
            try:
                cf.close_link()
                s.sleep(3.0)
                shift = 0
                if case.get('renumber'):
                    # the firmware was updated in between: the same variables, numbered differently
                    shift = 1 + case['renumber'] % 2
                    dev.log_toc[0:0] = [{'group': 'lg0', 'name': 'fresh%d' % k_, 'type': 1} for k_ in range(shift)]
                    dev.log_crc = (dev.log_crc + 1) & 0xFFFFFFFF
                    out.feat('table-renumbered-between-sessions')
                if not cfharness.connect(env, cf, rec, wait_for='fully_connected', timeout=60.0):
                    out.fail('log:reconnect', 'events %r' % rec.names()[-6:])
                    return out
                link2 = env.world.links[-1]
                n_tx2 = len(link2.tx)
                cf.log.add_config(lc)
                again = [(v.name, v.fetch_as, v.stored_as, v.type) for v in lc.variables]
                if again != first_vars:
                    out.fail('log:readd-changes-variables', '%s: %d variables before, %d after re-adding: %r' % (desc, len(first_vars), len(again), [a[0] for a in again]))
                if accepted and not has_mem and lc.valid:
                    lc.create()
                    s.sleep(1.0)
                    items = []
                    for t, p, c, d, cl in link2.tx[n_tx2:]:
                        if p == 5 and c == 1 and d[0] in (0, 1, 6, 7):
                            body = d[2:]
                            step_ = 3 if v2 else 2
                            for k in range(len(body) // step_):
                                items.append((body[k * step_], body[k * step_ + 1] | (body[k * step_ + 2] << 8) if v2 else body[k * step_ + 1]))
                    byname = dict((e[0], e) for e in expected)
                    want = [((byname[v.name][2] << 4) | byname[v.name][1], byname[v.name][3] + shift) for v in lc.variables if v.name in byname]
                    if items != want:
                        out.fail('log:create-items:second-session', '%s: table shifted by %d; device decoded %r, configuration is %r' % (desc, shift, items, want))
            except (KeyError, AttributeError) as e:
                out.fail('log:readd-rejected', '%s: %r' % (desc, e))
            except (Deadlock, Horizon) as e:
                out.fail('log:hang', '%s: %s' % (desc, repr(e)[:300]))
                return out
        if dev.violations:
            out.fail('log:malformed-request', '%s: %s' % (desc, dev.violations[0]))
        if s.deaths:
            out.fail('log:thread-died:' + s.deaths[0][1][:60], s.deaths[0][2][-500:])
        cf.close_link()
        s.sleep(2.0)
    return out


# ---------------------------------------------------------------- SyncLogger
def run_sync(case):
    from cflib.crazyflie.log import LogConfig
    from cflib.crazyflie.syncLogger import SyncLogger
    out = Outcome()
    spec = make_spec({'version': 10, 'toc_types': [7, 1, 5, 8, 3]})
    with SimEnv(spec, Net(delays=[0.0]) if case.get('eager') else Net(), None if case.get('eager') else case.get('schedule'), horizon=200.0) as env:
        s = env.s
        cf, rec = cfharness.make_cf(env)
        try:
            if not cfharness.connect(env, cf, rec, wait_for='fully_connected', timeout=60.0):
                out.fail('sync:connect', repr(rec.names()))
                return out
            if case.get('eager'):
                # the schedule of the case applies from here on (the connection itself ran undisturbed)
                sc = case.get('schedule') or {}
                s.prefix, s.ci, s.rate = list(sc.get('prefix', [])), 0, float(sc.get('rate', 0.0))
            dev, link = env.device, env.world.links[0]
            confs = []
            for ci in range(case.get('nconf', 1)):
                lc = LogConfig('s%d' % ci, 100)
                names = []
                for i in (case['vars'] if ci == 0 else case['vars'][::-1][:2]):
                    e = spec['log_toc'][(i + ci) % 5]
                    n = '%s.%s' % (e['group'], e['name'])
                    if n not in names:
                        names.append(n)
                        lc.add_variable(n)
                confs.append((lc, names))
            collected = []
            kept_sync = []
            state = {'done': False, 'error': None}

            nsess = 2 if (case.get('sessions') == 2 and case['n'] >= 1 and not case['consumer_gap'] and not case.get('eager')) else 1
            delivered = []

            def sample(ci, lc, names, k, tag):
                blk = env.device.blocks.get(lc.id)
                body = b''
                vals = {}
                for j, ((tb, vid), n) in enumerate(zip(blk['vars'], names)):
                    sz = TYPES[tb & 0xf][1]
                    chunk = bytes(((k + 1) * (j + 3 + ci) * 29 + x + tag) & 0xff for x in range(sz))
                    body += chunk
                    vals[n] = _ref_decode(tb & 0xf, chunk)
                # blocks with the same period are sent in the same firmware tick: same time stamp
                ts = (case['ts0'] + (k + 100 * tag) * 10) & 0xFFFFFF
                delivered.append((ts, vals, lc.name))
                return (5, 2, bytes([lc.id, ts & 0xff, (ts >> 8) & 0xff, (ts >> 16) & 0xff]) + body)
            if case.get('eager'):
                # the device sends the first sample(s) of a block right behind the acknowledgement of its START command
                def eager(lnk, req, reps):
                    res = [(r, None, None) for r in reps]
                    if req[0] == 5 and req[1] == 1 and req[2][0] == 3 and reps and reps[0][2][2] == 0:
                        for ci, (lc, names) in enumerate(confs):
                            if lc.id == req[2][1]:
                                for e_ in range(case['eager']):
                                    res.append((sample(ci, lc, names, 40 + e_, 3), None, None))
                    return res
                env.world.reply_filter = eager
            gate = {'go': False, 'first_done': False}

            def consumer():
                try:
                    logger = SyncLogger(cf, [c[0] for c in confs] if len(confs) > 1 else confs[0][0])
                    for sess in range(nsess):
                        got_here = 0
                        with logger:
                            for entry in logger:
                                collected.append((entry[0], dict(entry[1]), entry[2].name))
                                kept_sync.append((entry[1], dict(entry[1])))
                                got_here += 1
                                if case['consumer_gap']:
                                    s.sleep(case['consumer_gap'])
                                if sess < nsess - 1 and got_here == case['n'] * len(confs):
                                    break       # this session is over; the same SyncLogger is used again below
                        if sess < nsess - 1:
                            gate['first_done'] = True
                            while not gate['go']:
                                s.sleep(0.01)
                except Exception as e:  # noqa
                    state['error'] = e
                state['done'] = True
            s.spawn(consumer, 'consumer')
            s.sleep(0.5)

            def emit(k, tag):
                for ci, (lc, names) in enumerate(confs):
                    link.deliver(sample(ci, lc, names, k, tag))
            for sess in range(nsess):
                for lc, names in confs:
                    blk = dev.blocks.get(lc.id)
                    if not blk or not blk['started']:
                        out.fail('sync:block-not-started', 'session %d: %r' % (sess, dev.blocks))
                        return out
                old = [(lc.id, dict(dev.blocks[lc.id])) for lc, names in confs]
                for k in range(case['n']):
                    emit(k, sess)
                    s.sleep(case['emit_gap'])
                if sess < nsess - 1:
                    for _ in range(500):
                        if gate['first_done']:
                            break
                        s.sleep(0.01)
                    # packets of the finished session that were still on their way arrive while nobody is listening
                    for bid, blk in old:
                        n_bytes = sum(TYPES[tb & 0xf][1] for tb, vid in blk['vars'])
                        link.deliver((5, 2, bytes([bid, 0x78, 0, 0]) + bytes(n_bytes)))
                    s.sleep(0.05)
                    gate['go'] = True
                    s.sleep(0.5)
            s.sleep(0.2)
            if case['end'] == 'close':
                cf.close_link()
            else:
                net = env.world.net
                net.fault = {'k': 0, 'reporter': 'driver', 'session': 0}
                link._fault_event.set()
            s.sleep(5.0)
        except (Deadlock, Horizon) as e:
            out.fail('sync:hang', repr(e)[:300])
            return out
        out.nontrivial = case['n'] >= 2
        out.nontrivial = out.nontrivial or bool(case.get('eager'))
        out.feat('eager-device' if case.get('eager') else 'samples-on-request', 'samples-%d' % min(case['n'], 3), 'configs-%d' % case.get('nconf', 1), 'sessions-%d' % nsess, 'end-' + case['end'], 'slow-consumer' if case['consumer_gap'] else 'fast-consumer')
        if not state['done']:
            out.fail('sync:iterator-does-not-end', 'consumer still blocked after disconnect (%s)' % case['end'])
        if state['error'] is not None:
            out.fail('sync:consumer-raised', repr(state['error']))
        if case['consumer_gap']:
            delivered_cmp = delivered[:len(collected)]     # a slow consumer may lose what was still queued at disconnect
        else:
            delivered_cmp = delivered
        ok = len(collected) == len(delivered_cmp) and all(a[0] == b[0] and a[2] == b[2] and set(a[1]) == set(b[1]) and all(_eq(a[1][k], b[1][k]) for k in a[1])
                                                       for a, b in zip(collected, delivered_cmp))
        for obj, snap in kept_sync:
            if set(obj) != set(snap) or any(not _eq(obj[k_], snap[k_]) for k_ in snap):
                out.fail('sync:sample-changed-afterwards', 'a sample yielded as %r later reads %r' % (snap, dict(obj)))
                break
        if not ok:
            out.fail('sync:samples', 'device sent %d samples %r, iterator yielded %d %r' % (len(delivered), [(d[0], d[2]) for d in delivered], len(collected), [(c[0], c[2]) for c in collected]))
        if s.deaths:
            out.fail('sync:thread-died:' + s.deaths[0][1][:60], s.deaths[0][2][-500:])
    return out


_sched = st.fixed_dictionaries({'prefix': st.lists(st.integers(0, 3), max_size=20), 'seed': st.integers(0, 10 ** 6), 'rate': st.sampled_from([0.0, 0.1, 0.4, 0.7])})
_period = st.one_of(st.sampled_from([-10, 0, 5, 9.99, 10, 10.5, 20, 100, 1000, 2540, 2545, 2550, 2560, 5000]), st.integers(1, 3000), st.floats(0, 3000, allow_nan=False))


@st.composite
def log_case(draw):
    ntoc = draw(st.integers(4, 30))
    toc_types = [draw(st.sampled_from([1, 2, 3, 4, 5, 6, 7, 8])) for _ in range(ntoc)]
    shape = draw(st.sampled_from(['few', 'split', 'near26', 'many-small', 'random']))
    vars_ = []
    if shape == 'split':
        n = draw(st.sampled_from([9, 10, 18, 19, 26, 27]))
        toc_types = [draw(st.sampled_from([1, 4])) for _ in range(30)]
        vars_ = [{'kind': 'toc', 'idx': i, 'fetch': None} for i in range(n)]
    elif shape == 'near26':
        target = draw(st.sampled_from([24, 25, 26, 27, 28]))
        tot = 0
        i = 0
        while tot < target and i < ntoc:
            f = draw(st.sampled_from([None, None, 1, 2, 3, 7, 8]))
            sz = TYPES[f or toc_types[i]][1]
            if tot + sz > target:
                f = 1
                sz = 1
            vars_.append({'kind': 'toc', 'idx': i, 'fetch': f})
            tot += sz
            i += 1
    elif shape == 'many-small':
        toc_types = [1] * 30
        vars_ = [{'kind': 'toc', 'idx': i, 'fetch': None} for i in range(draw(st.integers(10, 28)))]
    else:
        n = draw(st.integers(0, 6 if shape == 'few' else 14))
        for _ in range(n):
            kind = draw(st.sampled_from(['toc'] * 12 + ['mem']))
            if kind == 'mem':
                vars_.append({'kind': 'mem', 'fetch': draw(st.sampled_from([1, 3, 7])), 'stored': draw(st.sampled_from([1, 3, 7])), 'address': draw(st.integers(0, 2 ** 32 - 1))})
            else:
                vars_.append({'kind': 'toc', 'idx': draw(st.one_of(st.integers(0, ntoc - 1), st.integers(0, ntoc - 1), st.integers(ntoc, ntoc + 2))),
                              'fetch': draw(st.sampled_from([None, None, None, 1, 2, 3, 4, 5, 6, 7, 8]))})
    hist = [{'op': 'start', 'gap': 0.2}]
    for _ in range(draw(st.integers(0, 6))):
        hist.append({'op': draw(st.sampled_from(['emit', 'emit', 'emit', 'stop', 'start', 'start', 'delete', 'add'])), 'seed': draw(st.integers(0, 200)),
                     'extreme': draw(st.booleans()), 'gap': draw(st.sampled_from([0.2, 0.2, 0.0, 0.01]))})
    period = draw(_period) if shape != 'split' else draw(st.sampled_from([10, 100, 2540]))
    return {'version': draw(st.sampled_from([10, 10, 4, 3])), 'toc_types': toc_types, 'vars': vars_, 'period_ms': period, 'history': hist,
            'ts0': draw(st.sampled_from([0, 1, 255, 256, 65535, 65536, 0xFFFFFE, 1000000])), 'readd': draw(st.sampled_from([False, False, True])), 'renumber': draw(st.sampled_from([0, 0, 1, 2])),
            'schedule': draw(_sched), 'delays': draw(st.sampled_from([[], [0.0], [0.0], [0.0, 0.001], [0.002]]))}


sync_case = st.fixed_dictionaries({'vars': st.lists(st.integers(0, 4), min_size=1, max_size=4), 'n': st.integers(0, 8), 'nconf': st.sampled_from([1, 1, 2]), 'sessions': st.sampled_from([1, 2, 2]),
                                   'emit_gap': st.sampled_from([0.0, 0.001, 0.1]), 'consumer_gap': st.sampled_from([0, 0, 0.05, 0.3]),
                                   'ts0': st.sampled_from([0, 65530, 0xFFFFF0]), 'end': st.sampled_from(['close', 'close', 'fault']), 'schedule': _sched,
                                   'eager': st.sampled_from([0, 0, 0, 1, 3])})


def directed_cases(tier):
    base = {'version': 10, 'toc_types': [7, 1, 2, 3, 4, 5, 6, 8, 7, 1], 'period_ms': 100, 'ts0': 0xFFFFFE, 'readd': True,
            'schedule': {'prefix': [], 'seed': 0, 'rate': 0.0}}
    hist = [{'op': 'start', 'gap': 0.2}, {'op': 'emit', 'seed': 3, 'extreme': False, 'gap': 0.2}, {'op': 'emit', 'seed': 4, 'extreme': True, 'gap': 0.2},
            {'op': 'stop', 'gap': 0.2}, {'op': 'start', 'gap': 0.2}, {'op': 'emit', 'seed': 5, 'extreme': False, 'gap': 0.2}, {'op': 'delete', 'gap': 0.2},
            {'op': 'start', 'gap': 0.2}, {'op': 'emit', 'seed': 6, 'extreme': True, 'gap': 0.2}]
    yield dict(base, vars=[{'kind': 'mem', 'fetch': 7, 'stored': 7, 'address': 0x20001000}], history=hist)
    yield dict(base, vars=[{'kind': 'toc', 'idx': i, 'fetch': None} for i in range(8)], history=hist)
    yield dict(base, vars=[{'kind': 'toc', 'idx': i, 'fetch': [None, 8, 7, 1][i % 4]} for i in range(10)], history=hist)
    for v in (10, 4, 3):
        yield dict(base, version=v, vars=[{'kind': 'toc', 'idx': i, 'fetch': 1} for i in range(10)], history=hist, toc_types=[1] * 10)
    # two sessions with one configuration on one connection
    hist2 = [{'op': 'start', 'gap': 0.2}, {'op': 'emit', 'seed': 3, 'extreme': False, 'gap': 0.2}, {'op': 'stop', 'gap': 0.2}, {'op': 'delete', 'gap': 0.2},
             {'op': 'add', 'gap': 0.2}, {'op': 'start', 'gap': 0.2}, {'op': 'emit', 'seed': 5, 'extreme': False, 'gap': 0.2}, {'op': 'emit', 'seed': 6, 'extreme': True, 'gap': 0.2},
             {'op': 'delete', 'gap': 0.2}, {'op': 'add', 'gap': 0.2}, {'op': 'start', 'gap': 0.2}, {'op': 'emit', 'seed': 7, 'extreme': False, 'gap': 0.2}]
    yield dict(base, vars=[{'kind': 'toc', 'idx': i, 'fetch': [None, 8, 7, 1][i % 4]} for i in range(5)], history=hist2)
    # payloads of exactly 25, 26 (the limit) and 24 bytes made of 1-, 2- and 4-byte variables, started and fed with data
    short = [{'op': 'start', 'gap': 0.2}, {'op': 'emit', 'seed': 3, 'extreme': False, 'gap': 0.2}, {'op': 'emit', 'seed': 4, 'extreme': True, 'gap': 0.2}]
    for fetches in ([7] * 6 + [2], [7] * 6 + [1, 1], [2] * 13, [1] * 26, [7] * 6 + [1], [7] * 6, [3] * 5 + [6, 5], [8] * 13, [1] * 25, [5] * 12 + [4, 1]):
        n = len(fetches)
        yield dict(base, toc_types=[1] * 30, readd=False, vars=[{'kind': 'toc', 'idx': i, 'fetch': f} for i, f in enumerate(fetches)], history=short)


def big_table_cases(tier):
    """log tables with more than 255 entries: variables whose index needs the high byte"""
    short = [{'op': 'start', 'gap': 0.2}, {'op': 'emit', 'seed': 3, 'extreme': False, 'gap': 0.2}, {'op': 'emit', 'seed': 4, 'extreme': True, 'gap': 0.2}]
    base = {'toc_types': [[7, 1, 2, 3, 4, 5, 6, 8][i % 8] for i in range(600)], 'period_ms': 100, 'ts0': 7, 'readd': False,
            'schedule': {'prefix': [], 'seed': 0, 'rate': 0.0}}
    for v in (10, 4):
        for idxs in ([17, 254, 255, 256, 257], [510, 511, 512, 599, 300], [255], [1, 513, 2, 258]):
            yield dict(base, version=v, vars=[{'kind': 'toc', 'idx': i, 'fetch': None} for i in idxs], history=short)


def eager_sync_cases(tier):
    """SyncLogger on a device that sends samples right behind the START acknowledgement, replies without latency; one forced thread switch at
    the k-th scheduling decision after the connection (the dispatcher then runs until it has nothing left to do)"""
    for nconf in (1, 2):
        for k in range(0, 60 if tier == 'quick' else 200):
            for other in (1, 2):
                yield {'vars': [0, 1], 'n': 2, 'nconf': nconf, 'sessions': 1, 'emit_gap': 0.001, 'consumer_gap': 0, 'ts0': 5, 'end': 'close', 'eager': 2,
                       'schedule': {'prefix': [0] * k + [other], 'seed': 0, 'rate': 0.0}}


def single_preemption_cases(tier):
    """acknowledgements without latency; one forced thread switch at the k-th scheduling decision of a fixed history"""
    base = {'version': 10, 'toc_types': [7, 1, 2, 3, 4, 5, 6, 8, 7, 1] * 3, 'period_ms': 100, 'ts0': 5, 'readd': False, 'delays': [0.0],
            'schedule': {'prefix': [], 'seed': 0, 'rate': 0.0}}
    hist = [{'op': 'start', 'gap': 0.0}, {'op': 'emit', 'seed': 3, 'extreme': False, 'gap': 0.0}, {'op': 'stop', 'gap': 0.0}, {'op': 'start', 'gap': 0.0},
            {'op': 'emit', 'seed': 4, 'extreme': False, 'gap': 0.0}, {'op': 'delete', 'gap': 0.0}, {'op': 'add', 'gap': 0.0}, {'op': 'start', 'gap': 0.0},
            {'op': 'emit', 'seed': 5, 'extreme': False, 'gap': 0.2}]
    for nvars in (3, 20):
        for k in range(0, 50 if tier == 'quick' else 160):
            for other in (1, 2):
                yield dict(base, vars=[{'kind': 'toc', 'idx': i, 'fetch': 1} for i in range(nvars)], history=hist, prefix_after_connect=[0] * k + [other])


def subchecks(tier):
    return [
        Sub('directed', run_log, cases=directed_cases, distinct_by_construction=True),
        Sub('single-preemptions', run_log, cases=single_preemption_cases, distinct_by_construction=True),
        Sub('big-tables', run_log, cases=big_table_cases, distinct_by_construction=True),
        Sub('configs', run_log, strategy=log_case(), examples={'quick': 900, 'thorough': 30000}),
        Sub('synclogger', run_sync, strategy=sync_case, examples={'quick': 160, 'thorough': 4000}),
        Sub('synclogger-eager-device', run_sync, cases=eager_sync_cases, distinct_by_construction=True),
    ]
