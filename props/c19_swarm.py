"""C19: swarm actions run once per Crazyflie with the right arguments and error report."""
import threading

from hypothesis import strategies as st

from vlib.dsched import Deadlock, Horizon, Session
from vlib.runner import Outcome, Sub

PROPERTY = 'C19'
LEVEL = 'exploration'
SHARDS = {'quick': 4, 'thorough': 16}
RULE = ('The real Swarm runs under the deterministic scheduler with fake members from a factory (open/close recorders with drawn failures). '
        'Hypothesis draws the swarm size 0..8 and URI order, a script of calls over {sequential, parallel, parallel_safe} with argument '
        'dictionaries (fresh, re-used between calls, or with two URIs sharing one list object), the subset of members whose action raises '
        '(distinct exception per member and call), 0-3 yield points per action body, the subset whose open_link fails, and the thread '
        'schedule. Oracle: exactly-once per member with (member, *own arguments), sequential order and non-overlap, parallel_safe returns '
        'after all actions ended and raises iff one raised with __cause__ among THIS call\'s errors, parallel never raises, failed open '
        'closes every member and propagates, second open_links raises. Non-trivial = >= 2 members with a failing subset, or a re-used / '
        'shared argument list. The URIs are handed over as list, tuple, dict, dict keys or generator. Sub "sync-members": the members are real '
        'SyncCrazyflie objects over scripted Crazyflie stand-ins whose connection attempt succeeds, fails (any error text, also an empty '
        'one) or loses the link before completion, reported synchronously or from another thread; a failing member makes open_links raise '
        'with every link closed again, otherwise every member is open and close_links closes all.')
ASSUMPTIONS = ['sub "scripts": members are fakes, only Swarm itself is exercised; sub "sync-members": Swarm and SyncCrazyflie are real, the Crazyflie below is scripted', 'interleavings at thread start/join and the yield points inside action bodies']


class _Token:
    def __init__(self, name):
        self.name = name

    def __repr__(self):
        return '<token %s>' % self.name


class _Boom(Exception):
    pass


def _make_exc(kind, text):
    # what an action or a link driver may raise: any exception type, with no, one or several arguments
    if kind == 'type':
        return TypeError(text)
    if kind == 'noargs':
        return _Boom()
    if kind == 'oserror':
        return OSError(5, text)
    if kind == 'assert':
        return AssertionError()
    if kind == 'key':
        return KeyError(text, 7)
    return _Boom(text)


def _container(uris, kind):
    # any iterable of URIs is a swarm; its iteration order is the order of the swarm
    if kind == 'tuple':
        return tuple(uris)
    if kind == 'dict-keys':
        return {u: None for u in uris}.keys()
    if kind == 'dict':
        return {u: None for u in uris}
    if kind == 'generator':
        return (u for u in uris)
    return list(uris)


def run_swarm(case):
    from cflib.crazyflie.swarm import Swarm
    out = Outcome()
    uris = case['uris']
    log = []
    open_errors = {}

    with Session(case.get('schedule'), horizon=50.0) as s:
        class Member:
            def __init__(self, uri):
                self.uri = uri
                self.cf = self
                self.link_uri = uri
                self.opened = 0
                self.closed = 0

            def open_link(self):
                self.opened += 1
                log.append(('open-start', self.uri))
                for _ in range(case['open_yields']):
                    s.yield_point()
                if self.uri in case['open_fail']:
                    log.append(('open-fail', self.uri))
                    open_errors[self.uri] = _make_exc(case.get('exc', 'boom'), 'open %s' % self.uri)
                    raise open_errors[self.uri]
                log.append(('open-end', self.uri))

            def close_link(self):
                self.closed += 1
                log.append(('close', self.uri))

        class Factory:
            def construct(self, uri):
                return Member(uri)
        try:
            # prelude on a throw-away swarm: an earlier failing call in the same process must not leak into later calls
            pre = Swarm(['radio://prelude'], factory=Factory())

            def _fail(scf):
                raise _Boom('prelude')
            pre.parallel(_fail)
            del log[:]
            given = list(uris)
            if case.get('repeat') is not None and uris and case.get('container', 'list') in ('list', 'tuple', 'generator'):
                # the collection names one Crazyflie twice: it is still one member, at the place where it was named first
                given.append(uris[case['repeat'] % len(uris)])
                out.feat('uri-named-twice')
            swarm = Swarm(_container(given, case.get('container', 'list')), factory=Factory())
            out.feat('uris-as-' + case.get('container', 'list'))
            members = dict(swarm._cfs) if hasattr(swarm, '_cfs') else {}
            # ---------------- open
            opened_ok = False
            try:
                swarm.open_links()
                opened_ok = True
            except Exception as e:  # noqa
                open_exc = e
            fails = [u for u in uris if u in case['open_fail']]
            desc = 'uris %r open_fail %r' % (uris, case['open_fail'])
            if fails:
                if opened_ok:
                    out.fail('swarm:open-failure-not-raised', desc)
                else:
                    cause = open_exc if any(open_exc is e_ for e_ in open_errors.values()) else open_exc.__cause__
                    if not any(cause is e_ for e_ in open_errors.values()):
                        out.fail('swarm:open-failure-cause', '%s: raised %r cause %r' % (desc, open_exc, cause))
                for u, m in members.items():
                    if m.closed < 1:
                        out.fail('swarm:not-closed-after-failed-open', '%s: member %s not closed' % (desc, u))
                        break
            else:
                if not opened_ok:
                    out.fail('swarm:open-raised', '%s: %r' % (desc, open_exc))
            for u, m in members.items():
                if m.opened != 1:
                    out.fail('swarm:open-count', '%s: member %s opened %d times' % (desc, u, m.opened))
            if opened_ok:
                for attempt in (2, 3):
                    try:
                        swarm.open_links()
                        out.fail('swarm:second-open-accepted', '%s (open number %d)' % (desc, attempt))
                    except Exception:  # noqa
                        pass
                    # the refused open leaves the running swarm alone
                    for u, m in members.items():
                        if m.closed or m.opened != 1:
                            out.fail('swarm:refused-open-disturbs-swarm', '%s: after refused open number %d member %s opened %d closed %d times' % (
                                desc, attempt, u, m.opened, m.closed))
                            break
            # ---------------- actions
            shared_or_reused = False
            prev_args = None
            for ci, call in enumerate(case['calls']):
                if not uris and call['args'] != 'none':
                    pass
                # build the argument dictionary
                if call['args'] in ('none', 'empty'):
                    # no dictionary, or an empty one: every action gets its connection and nothing else
                    args_dict = None if call['args'] == 'none' else {}
                    expect_args = {u: [] for u in uris}
                elif call['args'] == 'reuse' and prev_args is not None:
                    args_dict, expect_args = prev_args
                    shared_or_reused = True
                else:
                    args_dict = {}
                    expect_args = {}
                    shared = None
                    for k, u in enumerate(uris):
                        vals = ['a%d-%d-%d' % (ci, k, j) for j in range(call['nargs'])]
                        # arguments are handed over as they are: objects whose identity matters (a sentinel, an out-parameter list the
                        # caller reads afterwards, a lock or event shared with the caller) - they compare equal to themselves only
                        for j in range(call['nargs']):
                            if (ci + k + j) % 3 == 1:
                                vals[j] = _Token('t%d-%d-%d' % (ci, k, j))
                            elif (ci + k + j) % 5 == 2:
                                vals[j] = threading.Lock()
                        if call['args'] == 'shared' and k < 2:
                            if shared is None:
                                shared = ['s%d-%d' % (ci, j) for j in range(call['nargs'])]
                            args_dict[u] = shared
                            expect_args[u] = list(shared)
                            shared_or_reused = shared_or_reused or len(uris) >= 2
                        else:
                            args_dict[u] = vals
                            expect_args[u] = list(vals)
                    # add an entry for a URI that is not part of the swarm
                    args_dict['radio://not-a-member'] = ['x']
                    if call['nargs'] % 2:
                        # the caller's dictionary need not be in the swarm's URI order
                        args_dict = dict(reversed(list(args_dict.items())))
                missing = call['args'] == 'missing' and call['mode'] == 'parallel' and bool(uris)
                if missing:
                    # a dictionary that lacks one member's entry: what the members then do is not specified, only
                    # that parallel() still does not raise
                    del args_dict[uris[call['nargs'] % len(uris)]]
                if call.get('entry_kind') == 'tuple' and args_dict and call['args'] not in ('reuse', 'shared'):
                    # the entries of the dictionary are any sequence of arguments: tuples as well as lists
                    args_dict = {u_: tuple(v_) for u_, v_ in args_dict.items()}
                    out.feat('tuple-entries')
                prev_args = (args_dict, expect_args)
                events = []
                running = set()
                overlap = [False]
                raised_here = {}

                def action(scf, *a, ci=ci, call=call):
                    events.append(('start', scf.uri, tuple(a)))
                    if running:
                        overlap[0] = True
                    running.add(scf.uri)
                    for _ in range(call['yields']):
                        s.yield_point()
                    running.discard(scf.uri)
                    if scf.uri in call['fail']:
                        e = _make_exc(call.get('exc', 'boom'), 'call %d member %s' % (ci, scf.uri))
                        raised_here[scf.uri] = e
                        events.append(('raise', scf.uri, None))
                        raise e
                    events.append(('end', scf.uri, None))
                exc = None
                try:
                    getattr(swarm, call['mode'])(action, args_dict)
                except Exception as e:  # noqa
                    exc = e
                cdesc = '%s call %d %s args=%s fail=%r' % (desc, ci, call['mode'], call['args'], call['fail'])
                if missing:
                    if exc is not None:
                        out.fail('swarm:parallel-raised', '%s (one entry missing): %r' % (cdesc, exc))
                    for lt in list(s.threads):   # let any member thread that was started run to its end before the next call
                        if lt is not s.main:
                            lt.thread.join()
                    prev_args = None
                    shared_or_reused = True
                    continue
                starts = [e for e in events if e[0] == 'start']
                fails_here = [u for u in uris if u in call['fail']]
                if call['mode'] == 'sequential' and fails_here:
                    # a raising action ends a sequential run: members after it are not visited; the error propagates
                    first = uris.index(fails_here[0])
                    if [e[1] for e in starts] != uris[:first + 1]:
                        out.fail('swarm:sequential-order', '%s: visited %r' % (cdesc, [e[1] for e in starts]))
                    if exc is None:
                        out.fail('swarm:sequential-swallowed-error', cdesc)
                else:
                    if call['mode'] == 'sequential' and exc is not None:
                        out.fail('swarm:sequential-raised', '%s: %r' % (cdesc, exc))
                    seen = [e[1] for e in starts]
                    if sorted(seen) != sorted(uris):
                        out.fail('swarm:exactly-once', '%s: actions ran for %r' % (cdesc, seen))
                    if call['mode'] == 'sequential':
                        if seen != list(uris):
                            out.fail('swarm:sequential-order', '%s: visited %r' % (cdesc, seen))
                        if overlap[0]:
                            out.fail('swarm:sequential-overlap', cdesc)
                for e in starts:
                    if e[1] not in expect_args:
                        out.fail('swarm:foreign-member', '%s: the action ran for %s, which is not a member of this swarm' % (cdesc, e[1]))
                        break
                    want = tuple(expect_args[e[1]])
                    if e[2] != want:
                        out.fail('swarm:arguments', '%s: member %s received %r, its entry is %r' % (cdesc, e[1], e[2], want))
                        break
                if args_dict:
                    for u in uris:
                        if list(args_dict[u]) != expect_args[u]:
                            out.fail('swarm:argument-dict-mutated', '%s: entry of %s is now %r' % (cdesc, u, args_dict[u]))
                            break
                if call['mode'] in ('parallel', 'parallel_safe'):
                    finished = set(e[1] for e in events if e[0] in ('end', 'raise'))
                    if finished != set(uris):
                        out.fail('swarm:returned-before-all-finished', '%s: finished %r' % (cdesc, sorted(finished)))
                if call['mode'] == 'parallel' and exc is not None:
                    out.fail('swarm:parallel-raised', '%s: %r' % (cdesc, exc))
                if call['mode'] == 'parallel_safe':
                    if fails_here and exc is None:
                        out.fail('swarm:parallel-safe-swallowed', cdesc)
                    if not fails_here and exc is not None:
                        out.fail('swarm:parallel-safe-spurious', '%s: %r' % (cdesc, exc))
                    if fails_here and exc is not None:
                        if not any(exc.__cause__ is e for e in raised_here.values()):
                            out.fail('swarm:parallel-safe-cause', '%s: __cause__ %r is not one of this call\'s errors %r' % (cdesc, exc.__cause__, list(raised_here.values())))
            swarm.close_links()
        except (Deadlock, Horizon) as e:
            out.fail('swarm:hang', repr(e)[:300])
            return out
        if s.deaths:
            out.fail('swarm:thread-died:' + s.deaths[0][1][:60], s.deaths[0][2][-400:])
    anyfail = any(c['fail'] for c in case['calls']) or case['open_fail']
    out.nontrivial = (len(uris) >= 2 and bool(anyfail)) or shared_or_reused
    out.feat('size-%d' % min(len(uris), 3), 'failing-subset' if anyfail else 'no-failures', 'shared-or-reused-args' if shared_or_reused else 'fresh-args')
    return out


_sched = st.fixed_dictionaries({'prefix': st.lists(st.integers(0, 3), max_size=30), 'seed': st.integers(0, 10 ** 6), 'rate': st.sampled_from([0.0, 0.1, 0.3, 0.6])})


_exc = st.sampled_from(['boom', 'boom', 'type', 'noargs', 'oserror', 'assert', 'key'])


@st.composite
def swarm_case(draw):
    n = draw(st.integers(0, 8))
    uris = draw(st.permutations(['radio://0/%d/2M/E7E7E7E7%02X' % (10 + i, i) for i in range(n)]))
    uris = list(uris)
    open_fail = draw(st.one_of(st.just([]), st.just([]), st.lists(st.sampled_from(uris), unique=True, max_size=3))) if uris else []
    calls = []
    if not open_fail:
        for _ in range(draw(st.integers(1, 4))):
            calls.append({'mode': draw(st.sampled_from(['sequential', 'parallel', 'parallel_safe', 'parallel_safe'])),
                          'args': draw(st.sampled_from(['none', 'empty', 'fresh', 'fresh', 'reuse', 'shared', 'missing'])), 'nargs': draw(st.integers(0, 3)),
                          'fail': draw(st.one_of(st.just([]), st.lists(st.sampled_from(uris), unique=True, max_size=3))) if uris else [],
                          'yields': draw(st.integers(0, 3)), 'exc': draw(_exc), 'entry_kind': draw(st.sampled_from(['list', 'list', 'tuple']))})
    return {'repeat': draw(st.sampled_from([None, None, None, 0, 1, 5])), 'uris': uris, 'open_fail': open_fail, 'open_yields': draw(st.integers(0, 2)), 'calls': calls, 'schedule': draw(_sched), 'exc': draw(_exc),
            'container': draw(st.sampled_from(['list', 'list', 'tuple', 'dict-keys', 'dict', 'generator']))}


_MSGS = ['No Crazyflie at the address', '', 'x']


def run_sync_members(case):
    """the members are real SyncCrazyflie objects over scripted Crazyflie stand-ins: a connection attempt succeeds, fails (with any
    error text, also none) or loses the link before the connection is complete, reported from the caller's or another thread"""
    from cflib.crazyflie.swarm import Swarm
    from cflib.crazyflie.syncCrazyflie import SyncCrazyflie
    from cflib.utils.callbacks import Caller
    out = Outcome()
    plans = case['members']
    uris = ['radio://0/%d/2M/E7E7E7E7E7' % (10 + i) for i in range(len(plans))]
    with Session(case.get('schedule'), horizon=50.0) as s:
        class FakeCf:
            def __init__(self, uri, plan):
                self.uri, self.plan = uri, plan
                self.connected, self.connection_failed, self.disconnected, self.fully_connected = Caller(), Caller(), Caller(), Caller()
                self.connection_lost = Caller()
                self.link_open = False
                self.opens = self.closes = 0

            def _later(self, fn):
                if self.plan['async']:
                    s.spawn(fn, 'link-' + self.uri[-14:-11])
                else:
                    fn()

            def open_link(self, uri):
                self.opens += 1
                plan = self.plan

                def finish():
                    for _ in range(plan['yields']):
                        s.yield_point()
                    if plan['outcome'] == 'ok':
                        self.link_open = True
                        self.connected.call(uri)
                        self.fully_connected.call(uri)
                    elif plan['outcome'] == 'fail':
                        self.connection_failed.call(uri, _MSGS[plan['msg']])
                    else:
                        self.disconnected.call(uri)
                        self.connection_lost.call(uri, _MSGS[plan['msg']])
                self._later(finish)

            def close_link(self):
                self.closes += 1

                def finish():
                    self.link_open = False
                    self.disconnected.call(self.uri)
                self._later(finish)
        cfs = {u: FakeCf(u, p) for u, p in zip(uris, plans)}

        class Factory:
            def construct(self, uri):
                return SyncCrazyflie(uri, cf=cfs[uri])
        desc = 'members %r' % [(p['outcome'], _MSGS[p['msg']], 'async' if p['async'] else 'sync') for p in plans]
        try:
            swarm = Swarm(uris, factory=Factory())
            exc = None
            try:
                swarm.open_links()
            except Exception as e:  # noqa
                exc = e
            bad = [u for u, p in zip(uris, plans) if p['outcome'] != 'ok']
            if bad:
                if exc is None:
                    out.fail('swarm:open-failure-not-raised', desc)
                s.sleep(1.0)
                still = [u for u in uris if cfs[u].link_open]
                if still:
                    out.fail('swarm:not-closed-after-failed-open', '%s: links still open %r' % (desc, still))
            else:
                if exc is not None:
                    out.fail('swarm:open-raised', '%s: %r' % (desc, exc))
                elif set(swarm._cfs) != set(uris):
                    out.fail('swarm:foreign-member', '%s: the swarm holds members %r' % (desc, sorted(swarm._cfs)))
                elif not all(scf.is_link_open() for scf in swarm._cfs.values()):
                    out.fail('swarm:member-not-open', desc)
                swarm.close_links()
                s.sleep(1.0)
                still = [u for u in uris if cfs[u].link_open]
                if still:
                    out.fail('swarm:not-closed-after-close', '%s: links still open %r' % (desc, still))
            for u in uris:
                if cfs[u].opens != 1:
                    out.fail('swarm:open-count', '%s: member %s opened %d times' % (desc, u, cfs[u].opens))
        except (Deadlock, Horizon) as e:
            out.fail('swarm:hang', '%s: %s' % (desc, repr(e)[:300]))
            return out
        if s.deaths:
            out.fail('swarm:thread-died:' + s.deaths[0][1][:60], s.deaths[0][2][-400:])
    kinds = set(p['outcome'] for p in plans)
    out.nontrivial = len(plans) >= 2 and len(kinds) >= 2
    out.feat('sync-size-%d' % min(len(plans), 3), *['sync-' + k for k in sorted(kinds)],
             *(['failure-without-text'] if any(p['outcome'] != 'ok' and not _MSGS[p['msg']] for p in plans) else []))
    return out


_member = st.fixed_dictionaries({'outcome': st.sampled_from(['ok', 'ok', 'ok', 'fail', 'lost']), 'msg': st.integers(0, 2), 'async': st.booleans(),
                                 'yields': st.integers(0, 2)})


@st.composite
def sync_case(draw):
    return {'members': draw(st.lists(_member, min_size=1, max_size=5)), 'schedule': draw(_sched)}


def subchecks(tier):
    return [Sub('scripts', run_swarm, strategy=swarm_case(), examples={'quick': 800, 'thorough': 40000}),
            Sub('sync-members', run_sync_members, strategy=sync_case(), examples={'quick': 400, 'thorough': 20000})]
