"""C11: the TOC cache never yields a wrong table, even after a crash during the write; ro cache never written."""
import os
import shutil
import tempfile

from hypothesis import strategies as st

from props import c03_toc
from vlib import cfharness
from vlib.dsched import Deadlock, Horizon
from vlib.runner import Outcome, Sub
from vlib.simcf import LOG_TYPES, PARAM_TYPES, Net, SimEnv

PROPERTY = 'C11'
LEVEL = 'fault_enumeration'
SHARDS = {'quick': 4, 'thorough': 16}
RULE = ('direct: Hypothesis draws log/param tables (built with the real element classes from reference-encoded TOC items) and a checksum; '
        'the table is inserted, fetched back through fresh TocCache objects (rw, ro, ro+rw) and compared entry for entry; the cache file is '
        'then truncated at EVERY byte offset (exhaustive per table), emptied, replaced by garbage and by a directory: fetch must return None '
        'or the identical table; neighbouring checksums (same suffix, one digit off, leading zeros) must miss; the ro directory must be '
        'byte-identical afterwards. integrated: a real Crazyflie populates the cache from a simulated device, the files are truncated at a '
        'drawn offset / emptied / replaced by a directory / made to collide (log CRC == param CRC), a second Crazyflie connects using the '
        'directory as ro or rw cache; it must reach `connected` with tables equal to the device\'s. Non-trivial = truncation strictly inside '
        'the file, a CRC collision, or a hit verified on >= 1 extended element.')
ASSUMPTIONS = ['a crash during the cache write leaves a prefix of the intended file (truncation model)',
               'corruptions that stay valid JSON are not generated (the property speaks of missing, truncated or unparsable files)']


def _ref_item(entry, param):
    if param:
        tb = entry['type'] | (0x40 if entry.get('ro') else 0) | (0x10 if entry.get('extended') else 0)
    else:
        tb = entry['type']
    return bytes([tb]) + entry['group'].encode('ISO-8859-1') + b'\0' + entry['name'].encode('ISO-8859-1') + b'\0'


def _build_toc(entries, param):
    from cflib.crazyflie.log import LogTocElement
    from cflib.crazyflie.param import ParamTocElement
    from cflib.crazyflie.toc import Toc
    toc = Toc()
    for i, e in enumerate(entries):
        ident = e.get('ident', i)
        el = ParamTocElement(ident, bytearray(_ref_item(e, True))) if param else LogTocElement(ident, bytearray(_ref_item(e, False)))
        toc.add_element(el)
    return toc


def _snapshot(toc_dict):
    snap = {}
    for g in toc_dict:
        for n in toc_dict[g]:
            e = toc_dict[g][n]
            snap[(g, n)] = (type(e).__name__, e.ident, e.group, e.name, e.ctype, e.pytype, e.access, getattr(e, 'extended', None))
    return snap


def _dirstate(d):
    st_ = {}
    for root, dirs, files in os.walk(d):
        for f in files + dirs:
            p = os.path.join(root, f)
            s = os.stat(p)
            st_[os.path.relpath(p, d)] = (s.st_size, s.st_mtime_ns, open(p, 'rb').read() if os.path.isfile(p) else None)
    return st_


def run_direct(case):
    from cflib.crazyflie.toccache import TocCache
    out = Outcome()
    param = case['kind'] == 'param'
    entries = case['entries']
    crc = case['crc']
    toc = _build_toc(entries, param)
    want = _snapshot(toc.toc)
    base = tempfile.mkdtemp(prefix='verif-c11-')
    try:
        rw = os.path.join(base, 'rw')
        c = TocCache(rw_cache=rw)
        c.insert(crc, toc.toc)
        files = os.listdir(rw)
        if len(files) != 1:
            out.fail('cache:insert-files', repr(files))
            return out
        path = os.path.join(rw, files[0])
        content = open(path, 'rb').read()
        ext = any(e.get('extended') for e in entries) and param
        out.feat('kind-' + case['kind'], 'entries-%d' % min(len(entries), 3), 'has-extended' if ext else 'no-extended')

        def check_fetch(cache, label, expect_hit=None):
            try:
                got = cache.fetch(crc)
            except Exception as e:  # noqa
                out.fail('cache:fetch-raises:' + label.split(' ')[0], '%s: %r' % (label, e))
                return
            if got is None or got == {}:
                if expect_hit and entries:
                    out.fail('cache:miss-on-intact', label)
                return
            try:
                snap = _snapshot(got)
            except Exception as e:  # noqa
                out.fail('cache:partial-or-wrong:' + label.split(' ')[0], '%s: unusable table %r' % (label, e))
                return
            if snap != want:
                out.fail('cache:partial-or-wrong:' + label.split(' ')[0], '%s: returned %d entries %r, stored %d' % (
                    label, len(snap), sorted(snap.items())[:2], len(want)))
        # intact, through every directory combination
        # the read-only directory's path starts with the writable one's (cache / cache.dist is a usual layout)
        ro = os.path.join(base, 'rw2.dist')
        shutil.copytree(rw, ro)
        # a distribution's read-only directory usually holds the tables of many firmware builds (older files first)
        for x in range(case.get('ro_extra', 0)):
            pth = os.path.join(ro, '%08X.json' % ((crc + 0x01000193 * (x + 7)) & 0xFFFFFFFF))
            if not os.path.exists(pth):
                shutil.copy(path, pth)
                os.utime(pth, (1500000000 + x, 1500000000 + x))
        if case.get('ro_extra', 0) > 64:
            out.feat('ro-directory-with-many-files')
        before = _dirstate(ro)
        check_fetch(TocCache(rw_cache=rw), 'intact rw', True)
        check_fetch(TocCache(ro_cache=ro), 'intact ro', True)
        rw2 = os.path.join(base, 'rw2')
        both = TocCache(ro_cache=ro, rw_cache=rw2)
        check_fetch(both, 'intact ro+rw', True)
        # inserting with a ro directory configured must write to rw only
        other = _build_toc(entries[:1] or [{'group': 'a', 'name': 'b', 'type': 7 if not param else 6}], param)
        both.insert((crc + 1) & 0xFFFFFFFF, other.toc)
        TocCache(ro_cache=ro).insert((crc + 2) & 0xFFFFFFFF, other.toc)
        if _dirstate(ro) != before:
            out.fail('cache:ro-written', 'read-only cache directory changed')
        # neighbouring checksums must miss
        for other_crc in set([(crc + 1) & 0xFFFFFFFF, crc ^ 0x10000000, crc ^ 0xF0000000, crc & 0x0FFFFFFF, crc & 0x00FFFFFF, crc >> 4, (crc << 4) & 0xFFFFFFFF,
                              crc ^ 1, crc & 0xFFFF]):
            if other_crc == crc:
                continue
            try:
                got = TocCache(rw_cache=rw).fetch(other_crc)
            except Exception as e:  # noqa
                out.fail('cache:fetch-raises:other-crc', repr(e))
                continue
            if got:
                out.fail('cache:wrong-checksum-hit', 'table stored under %08X returned for %08X' % (crc, other_crc))
        # every truncation point
        nt = 0
        for cut in range(len(content)):
            with open(path, 'wb') as f:
                f.write(content[:cut])
            check_fetch(TocCache(rw_cache=rw), 'truncated at %d of %d' % (cut, len(content)))
            nt += 1
        out.feat(*(['truncations'] if nt else []))
        # garbage, directory in place of the file
        for label, data in (('garbage binary', b'\xff\xfe\x00garbage'), ('garbage text', b'{"g": {"n": '), ('garbage json-scalar', b'42')):
            with open(path, 'wb') as f:
                f.write(data)
            if label == 'garbage json-scalar':
                try:
                    got = TocCache(rw_cache=rw).fetch(crc)
                    if got and not isinstance(got, dict):
                        out.feat('non-table-json-returned')
                except Exception as e:  # noqa
                    out.fail('cache:fetch-raises:garbage', repr(e))
            else:
                check_fetch(TocCache(rw_cache=rw), label)
        # a damaged file in the read-only directory is a miss and stays as it is
        ro_path = os.path.join(ro, files[0])
        for label, data in (('damaged ro truncated', content[:len(content) // 2]), ('damaged ro garbage', b'\xff\xfe\x00garbage')):
            with open(ro_path, 'wb') as f:
                f.write(data)
            before = _dirstate(ro)
            check_fetch(TocCache(ro_cache=ro, rw_cache=rw2), label)
            check_fetch(TocCache(ro_cache=ro), label + ' (ro only)')
            if _dirstate(ro) != before:
                out.fail('cache:ro-written', '%s: read-only cache directory changed by a fetch' % label)
        os.remove(path)
        os.mkdir(path)
        check_fetch(TocCache(rw_cache=rw), 'directory in place of file')
        os.rmdir(path)
        stale = TocCache(rw_cache=rw)
        with open(path, 'wb') as f:
            f.write(content)
        stale2 = TocCache(rw_cache=rw)
        os.remove(path)
        check_fetch(stale2, 'file removed after the cache object was created')
        out.nontrivial = len(content) > 2
    finally:
        shutil.rmtree(base, ignore_errors=True)
    return out


# names are bytes of the device decoded as ISO-8859-1: any character up to 0xFF can occur
_ident = st.text(alphabet='abcdefghijklmnopqrstuvwxyzABCDEFGHIJKLMNOPQRSTUVWXYZ0123456789_' + '\xe9\xdf\xff\xa0\x80\xb5', min_size=1, max_size=10)


@st.composite
def direct_case(draw):
    kind = draw(st.sampled_from(['log', 'param']))
    n = draw(st.integers(0, 5))
    names = draw(st.lists(st.tuples(_ident, _ident), min_size=n, max_size=n, unique=True))
    entries = []
    for i, (g, nm) in enumerate(names):
        if kind == 'log':
            entries.append({'group': g, 'name': nm, 'type': draw(st.sampled_from(sorted(LOG_TYPES))), 'ident': draw(st.sampled_from([i, i, i + 255, i + 1000]))})
        else:
            entries.append({'group': g, 'name': nm, 'type': draw(st.sampled_from(sorted(PARAM_TYPES) + [0x05])), 'ro': draw(st.booleans()),
                            'extended': draw(st.booleans()), 'ident': draw(st.sampled_from([i, i, i + 255, i + 1000]))})
    crc = draw(st.one_of(st.integers(0, 0xFFFFFFFF), st.sampled_from([0, 1, 0x0ABCDEF1, 0x1ABCDEF1, 0x00000010, 0xFFFFFFFF, 0x000000FF])))
    return {'kind': kind, 'entries': entries, 'crc': crc, 'ro_extra': draw(st.sampled_from([0, 0, 3, 70, 200]))}


# ---------------------------------------------------------------- concurrent inserts (several Crazyflies sharing one cache directory)
class _Gate:
    """the harness owns the schedule: every file operation of an insert (open, write, close, rename, remove ...) waits for its turn"""

    def __init__(self, order):
        import threading
        self.order = list(order)
        self.cv = threading.Condition()
        self.finished = set()
        self.tid = threading.local()

    def turn(self):
        me = getattr(self.tid, 'v', None)
        if me is None:
            return
        with self.cv:
            waited = 0.0
            while True:
                while self.order and self.order[0] in self.finished:
                    self.order.pop(0)
                if not self.order or self.order[0] == me:
                    if self.order:
                        self.order.pop(0)
                    self.cv.notify_all()
                    return
                if me not in self.order:
                    # nothing scheduled for this thread any more: it runs after everything that was scheduled
                    pass
                self.cv.wait(0.05)
                waited += 0.05
                if waited > 20:
                    raise RuntimeError('harness gate timeout')

    def finish(self, me):
        with self.cv:
            self.finished.add(me)
            self.cv.notify_all()


def run_concurrent(case):
    """two or three TocCache objects on ONE writable directory insert different tables (different checksums) at the same time; the file
    operations are interleaved as the case says; afterwards every checksum yields its own table or nothing"""
    import threading
    import cflib.crazyflie.toccache as tc
    from cflib.crazyflie.log import LogTocElement
    from cflib.crazyflie.param import ParamTocElement
    out = Outcome()
    d = tempfile.mkdtemp(prefix='verif-c11c-')
    gate = _Gate(case['order'])
    real_open, real_os = open, tc.os

    class _File:
        def __init__(self, f):
            self._f = f

        def write(self, x):
            gate.turn()
            return self._f.write(x)

        def close(self):
            gate.turn()
            return self._f.close()

        def __enter__(self):
            return self

        def __exit__(self, *a):
            self.close()
            return False

        def __getattr__(self, n):
            return getattr(self._f, n)

    def gated_open(path, mode='r', *a, **k):
        gate.turn()
        f = real_open(path, mode, *a, **k)
        return _File(f) if ('w' in mode or 'a' in mode or '+' in mode) else f

    class _Os:
        def __getattr__(self, n):
            v = getattr(real_os, n)
            if n in ('replace', 'rename', 'remove', 'unlink', 'link', 'fsync'):
                def g(*a, **k):
                    gate.turn()
                    return v(*a, **k)
                return g
            return v
    tables = []
    for i, t in enumerate(case['tables']):
        toc = _build_toc(t['entries'], t['kind'] == 'param')
        tables.append((t['crc'], toc, _snapshot(toc.toc), ParamTocElement if t['kind'] == 'param' else LogTocElement))
    errors = []
    tc.open = gated_open
    tc.os = _Os()
    try:
        def worker(i):
            gate.tid.v = i
            try:
                cache = tc.TocCache(rw_cache=d)
                cache.insert(tables[i][0], tables[i][1].toc)
            except Exception as e:  # noqa
                errors.append((i, repr(e)))
            finally:
                gate.finish(i)
        ths = [threading.Thread(target=worker, args=(i,), daemon=True) for i in range(len(tables))]
        for t in ths:
            t.start()
        for t in ths:
            t.join(30)
    finally:
        del tc.open
        tc.os = real_os
    try:
        if errors:
            out.fail('cache:insert-raised:concurrent', 'order %r: %r' % (case['order'], errors[:2]))
        hits = 0
        for i, (crc, toc, snap, cls) in enumerate(tables):
            got = tc.TocCache(rw_cache=d).fetch(crc)
            if got is None:
                continue
            hits += 1
            if _snapshot(got) != snap:
                out.fail('cache:wrong-table:concurrent-inserts', 'tables %r inserted at the same time into one directory, file operations in the order %r: '
                         'checksum %08X yields %r, stored was %r' % ([(t['kind'], '%08X' % t['crc'], len(t['entries'])) for t in case['tables']], case['order'], crc,
                                                                      sorted(_snapshot(got))[:4], sorted(snap)[:4]))
        out.nontrivial = len(set(case['order'][:4])) > 1
        out.feat('interleaved' if out.nontrivial else 'sequential', 'hits-%d-of-%d' % (hits, len(tables)))
    finally:
        shutil.rmtree(d, ignore_errors=True)
    return out


@st.composite
def concurrent_case(draw):
    nt = draw(st.sampled_from([2, 2, 3]))
    tables = []
    crcs = draw(st.lists(st.integers(0, 0xFFFFFFFF), min_size=nt, max_size=nt, unique=True))
    for i in range(nt):
        t = draw(direct_case())
        t['crc'] = crcs[i]
        t['entries'] = [dict(e, ident=j) for j, e in enumerate(t['entries'])]
        tables.append(t)
    order = draw(st.lists(st.integers(0, nt - 1), min_size=0, max_size=14))
    return {'tables': tables, 'order': order}


def concurrent_cases(tier):
    import itertools
    ta = {'kind': 'log', 'crc': 0x11111111, 'entries': [{'group': 'a', 'name': 'x%d' % i, 'type': 7, 'ident': i} for i in range(3)]}
    tb = {'kind': 'log', 'crc': 0x22222222, 'entries': [{'group': 'b', 'name': 'y%d' % i, 'type': 1, 'ident': i} for i in range(12)]}
    tp = {'kind': 'param', 'crc': 0x33333333, 'entries': [{'group': 'p', 'name': 'z%d' % i, 'type': 8, 'ident': i, 'ro': False, 'extended': i == 1} for i in range(2)]}
    for pair in ((ta, tb), (tb, ta), (ta, tp)):
        for order in itertools.product((0, 1), repeat=6 if tier == 'quick' else 8):
            yield {'tables': list(pair), 'order': list(order)}


# ---------------------------------------------------------------- integrated
def run_integrated(case):
    out = Outcome()
    tcase = dict(case['toc'])
    tcase['cache'] = False
    spec = c03_toc.build_spec(tcase)
    if case['collide']:
        spec['param_crc'] = spec['log_crc']
    net = Net(needs_resending=False)
    base = tempfile.mkdtemp(prefix='verif-c11i-')
    label = 'v%d nlog=%d nparam=%d crc=%08x/%08x damage=%r mode=%s' % (spec['version'], len(spec['log_toc']), len(spec['param_toc']),
                                                                        spec['log_crc'], spec['param_crc'], case['damage'], case['mode'])
    try:
        d1 = os.path.join(base, 'cache.dist')
        with SimEnv(spec, net, case.get('schedule'), horizon=400.0) as env:
            s = env.s
            for rnd in range(2):
                if rnd == 0:
                    cf, rec = cfharness.make_cf(env, rw_cache=d1)
                else:
                    # damage the files written in round 0
                    files = sorted(f for f in os.listdir(d1)) if os.path.isdir(d1) else []
                    dmg = case['damage']
                    inside = False
                    for k, f in enumerate(files):
                        p = os.path.join(d1, f)
                        data = open(p, 'rb').read()
                        if dmg['kind'] == 'truncate':
                            cut = dmg['cut'][k % len(dmg['cut'])] % (len(data) + 1)
                            inside = inside or 0 < cut < len(data)
                            with open(p, 'wb') as fh:
                                fh.write(data[:cut])
                        elif dmg['kind'] == 'empty':
                            open(p, 'wb').close()
                        elif dmg['kind'] == 'dir':
                            os.remove(p)
                            os.mkdir(p)
                        elif dmg['kind'] == 'old-format':
                            # file written by an older library version: no 'extended' key (not what this version stores:
                            # it cannot be loaded entry-for-entry and must be treated as a miss)
                            import json as _json
                            try:
                                doc = _json.loads(data.decode())
                                for g_ in doc.values():
                                    for e_ in g_.values():
                                        e_.pop('extended', None)
                                with open(p, 'w') as fh:
                                    fh.write(_json.dumps(doc, indent=2))
                                inside = True
                            except Exception:  # noqa
                                pass
                    before = _dirstate(d1)
                    if case['mode'] == 'ro':
                        cf, rec = cfharness.make_cf(env, ro_cache=d1)
                    elif case['mode'] == 'ro+rw':
                        cf, rec = cfharness.make_cf(env, ro_cache=d1, rw_cache=os.path.join(base, 'cache'))
                    else:
                        cf, rec = cfharness.make_cf(env, rw_cache=d1)
                done = []

                def on_connected(uri, cf=cf, rnd=rnd):
                    lbl = '%s round %d' % (label, rnd)
                    if cf.log.toc is None:
                        out.fail('cache:log-table-missing', lbl)
                    else:
                        c03_toc._compare(out, 'log', cf.log.toc, spec['log_toc'], lbl)
                    c03_toc._compare(out, 'param', cf.param.toc, spec['param_toc'], lbl)
                    done.append(1)
                cf.connected.add_callback(on_connected)
                try:
                    ok = cfharness.connect(env, cf, rec, wait_for='connected', timeout=60.0, step=0.5)
                except (Deadlock, Horizon) as e:
                    out.fail('cache:connect-hang', '%s round %d: %s' % (label, rnd, repr(e)[:300]))
                    return out
                if not ok:
                    out.fail('cache:connection-failed:' + ('collision' if case['collide'] else case['damage']['kind']),
                             '%s round %d: events %r' % (label, rnd, rec.names()[-5:]))
                    return out
                s.sleep(0.5)
                cf.close_link()
                s.sleep(3.0)
                if rnd == 1 and case['mode'] in ('ro', 'ro+rw') and _dirstate(d1) != before:
                    out.fail('cache:ro-written', '%s: read-only cache directory changed during the connection' % label)
            if case.get('third') and case['mode'] == 'rw':
                # another firmware (other tables) whose checksums are bit-level relatives of the cached ones connects with the same
                # cache directory: it must end up with ITS tables
                from vlib.simcf import SimDevice
                M = 0xFFFFFFFF
                rel = {'neg': lambda c: (-c) & M, 'flip-top': lambda c: c ^ 0x80000000, 'low31': lambda c: c & 0x7FFFFFFF, 'swap16': lambda c: ((c << 16) | (c >> 16)) & M}[case['third']]
                t3 = dict(case['toc'], tshift=(case['toc']['tshift'] + 3) % 10, nlog=case['toc']['nlog'] + 1, nparam=case['toc']['nparam'] + 1)
                t3['log_crc'], t3['param_crc'] = rel(spec['log_crc']), rel(spec['param_crc'])
                if len({t3['log_crc'], t3['param_crc'], spec['log_crc'], spec['param_crc']}) == 4:
                    spec3 = c03_toc.build_spec(t3)
                    env.world.device = SimDevice(spec3)
                    cf, rec = cfharness.make_cf(env, rw_cache=d1)
                    lbl3 = '%s, then a device with checksums %08x/%08x (%s)' % (label, spec3['log_crc'], spec3['param_crc'], case['third'])

                    def on_connected3(uri, cf=cf):
                        if cf.log.toc is None:
                            out.fail('cache:log-table-missing', lbl3)
                        else:
                            c03_toc._compare(out, 'log', cf.log.toc, spec3['log_toc'], lbl3)
                        c03_toc._compare(out, 'param', cf.param.toc, spec3['param_toc'], lbl3)
                    cf.connected.add_callback(on_connected3)
                    try:
                        ok = cfharness.connect(env, cf, rec, wait_for='connected', timeout=60.0, step=0.5)
                    except (Deadlock, Horizon) as e:
                        out.fail('cache:connect-hang', '%s: %s' % (lbl3, repr(e)[:300]))
                        return out
                    if not ok:
                        out.fail('cache:connection-failed:related-checksum', '%s: events %r' % (lbl3, rec.names()[-5:]))
                        return out
                    s.sleep(0.5)
                    cf.close_link()
                    s.sleep(3.0)
                    out.feat('related-checksum-' + case['third'])
            if s.deaths:
                out.fail('cache:thread-died:' + s.deaths[0][1][:60], s.deaths[0][2][-500:])
            downloaded = any(ch == 0 and port in (2, 5) and d[0] in (0, 2) for t, port, ch, d, c in env.world.links[1].tx)
    finally:
        shutil.rmtree(base, ignore_errors=True)
    out.nontrivial = case['collide'] or inside or (case['damage']['kind'] == 'none' and not downloaded)
    out.feat('damage-' + case['damage']['kind'], 'collision' if case['collide'] else 'distinct-crc', 'mode-' + case['mode'],
             'second-connect-downloaded' if downloaded else 'second-connect-from-cache')
    return out


@st.composite
def integrated_case(draw):
    t = draw(c03_toc.toc_case())
    t['needs_resending'] = False
    t['delays'] = [0.001]
    t['burst'] = []
    kind = draw(st.sampled_from(['none', 'truncate', 'truncate', 'truncate', 'empty', 'dir', 'old-format', 'old-format']))
    dmg = {'kind': kind}
    if kind == 'truncate':
        dmg['cut'] = draw(st.lists(st.integers(0, 4000), min_size=1, max_size=2))
    if draw(st.booleans()):
        # checksums with the top bit set (and their relatives) matter for signed/unsigned slips
        t['log_crc'] = draw(st.sampled_from([0xA112EDCC, 0x80000000, 0xFFFFFFFF, 0x8BADF00D, 0x9E3779B9]))
        t['param_crc'] = draw(st.sampled_from([0xC0FFEE11, 0x80000001, 0xFFFFFFFE, 0xDEADBEEF, 0xB7E15162]))
    return {'toc': t, 'collide': draw(st.sampled_from([False, False, True])), 'damage': dmg, 'mode': draw(st.sampled_from(['rw', 'rw', 'ro', 'ro+rw'])),
            'schedule': t['schedule'], 'third': draw(st.sampled_from([None, 'neg', 'neg', 'flip-top', 'low31', 'swap16']))}


def related_checksum_cases(tier):
    """a writable cache filled by one firmware, then a device with other tables whose checksums are bit-level relatives of the cached ones
    (negated, top bit flipped, low 31 bits, halves swapped) - enumerated over checksums with and without the top bit set"""
    for k, (lc, pc) in enumerate(((0xA112EDCC, 0xC0FFEE11), (0x80000000, 0x80000001), (0xFFFFFFFF, 0xFFFFFFFE), (0x1234ABCD, 0x0BADF00D), (0x00010002, 0x7FFFFFFF))):
        for third in ('neg', 'flip-top', 'low31', 'swap16'):
            for (nlog, nparam, v) in ((1, 0, 4), (0, 1, 4), (2, 3, 10)):
                t = {'version': v, 'nlog': nlog, 'nparam': nparam, 'glen': [1], 'nlen': [2], 'tshift': k, 'log_crc': lc, 'param_crc': pc,
                     'needs_resending': False, 'delays': [0.001], 'cache': True, 'schedule': {'prefix': [], 'seed': k, 'rate': 0.0}, 'extmod': 5,
                     'burst': [], 'latedup': {}, 'notify': [], 'second': None, 'cut': None}
                yield {'toc': t, 'collide': False, 'damage': {'kind': 'none'}, 'mode': 'rw', 'schedule': t['schedule'], 'third': third}


def subchecks(tier):
    return [
        Sub('direct', run_direct, strategy=direct_case(), examples={'quick': 120, 'thorough': 4000}),
        Sub('integrated', run_integrated, strategy=integrated_case(), examples={'quick': 150, 'thorough': 6000}),
        Sub('related-checksums', run_integrated, cases=related_checksum_cases, distinct_by_construction=True),
        Sub('concurrent-inserts', run_concurrent, cases=concurrent_cases, distinct_by_construction=True, shardable=True),
        Sub('concurrent-inserts-random', run_concurrent, strategy=concurrent_case(), examples={'quick': 60, 'thorough': 3000}),
    ]
