"""C15: lighthouse angle, vector and pose conversions are mutually consistent."""
import math

import numpy as np
from hypothesis import strategies as st

from vlib.runner import Outcome, Sub

PROPERTY = 'C15'
LEVEL = 'exploration'
SHARDS = {'quick': 4, 'thorough': 16}
RULE = ('angles: a lattice over horizontal +-80 deg x vertical +-55 deg (1 deg quick, 0.25 deg thorough; edges included) plus random '
        'directions: V1<->V2, V1<->cartesian, V1<->projection round trips, unit norm, and an independent check that both V2 sweep angles '
        'satisfy the tilted light-plane equation for the direction. poses: generated rotation vectors (identity, half turns about axes and '
        'arbitrary axes, 1e-9 angles, random up to pi) and translations up to 10 m: inverse undoes forward, associativity, composition == '
        'sequential application, matrix/rot-vec/quaternion views agree, rotation matrices proper. solver: the geometry solver\'s vectorised '
        '_calc_angle_pairs against atan2 of the point transformed with Pose, including zero rotation vectors and rotation vectors with '
        'norm in (pi, 2pi) as the optimiser can produce. Non-trivial = direction within 2 deg of the field-of-view edge, a half-turn / tiny '
        '/ zero rotation, or a rotation vector beyond pi. Poses: points also as integer tuples / arrays; a used pose re-scaled with scale() (and a '
        'scaled copy) obeys the inverse laws again; the solver projection is also fed the parameters its own _pose_to_params derives.')
ASSUMPTIONS = ['tolerances: 1e-9 rad for double precision paths, 1e-5 rad where the library returns float32 (cart, projection), 1e-6 for the unit norm',
               'scipy Rotation is used as reference for rotation-vector -> matrix conversion only in the solver-projection sub-check']

T = math.pi / 6


def _close(a, b, tol):
    return abs(a - b) <= tol


def run_angles(case):
    from cflib.localization.lighthouse_bs_vector import LighthouseBsVector
    out = Outcome()
    h, v = case['h'], case['v']
    edge = abs(abs(math.degrees(h)) - 80) < 2 or abs(abs(math.degrees(v)) - 55) < 2
    out.nontrivial = True
    out.feat('edge' if edge else 'interior')
    vec = LighthouseBsVector(h, v)
    desc = 'h=%.6f v=%.6f' % (h, v)
    # V1 <-> V2
    a1, a2 = vec.lh_v2_angle_1, vec.lh_v2_angle_2
    back = LighthouseBsVector.from_lh2(a1, a2)
    if not (_close(back.lh_v1_horiz_angle, h, 1e-9) and _close(back.lh_v1_vert_angle, v, 1e-9)):
        out.fail('angles:lh2-roundtrip', '%s -> lh2 (%.9f, %.9f) -> (%.9f, %.9f)' % (desc, a1, a2, back.lh_v1_horiz_angle, back.lh_v1_vert_angle))
    # independent: both sweeps satisfy the tilted light plane equation for the direction (1, tan h, tan v)
    y, z = math.tan(h), math.tan(v)
    n = math.sqrt(1 + y * y + z * z)
    for a, tilt, name in ((a1, -1.0, 'sweep1'), (a2, 1.0, 'sweep2')):
        res = (math.cos(T) * (y * math.cos(a) - math.sin(a)) + tilt * math.sin(T) * z) / n
        if abs(res) > 1e-9:
            out.fail('angles:lh2-plane:' + name, '%s: %s angle %.9f leaves plane residual %.3e' % (desc, name, a, res))
    # cartesian
    cart = vec.cart
    if abs(float(np.linalg.norm(cart.astype(np.float64))) - 1.0) > 1e-6:
        out.fail('angles:cart-norm', '%s: |cart| = %r' % (desc, float(np.linalg.norm(cart))))
    ref = np.array([1.0, y, z]) / n
    if np.max(np.abs(cart.astype(np.float64) - ref)) > 1e-6:
        out.fail('angles:cart-direction', '%s: cart %r, direction %r' % (desc, cart.tolist(), ref.tolist()))
    bc = LighthouseBsVector.from_cart(cart)
    if not (_close(bc.lh_v1_horiz_angle, h, 1e-5) and _close(bc.lh_v1_vert_angle, v, 1e-5)):
        out.fail('angles:cart-roundtrip', '%s -> cart -> (%.9f, %.9f)' % (desc, bc.lh_v1_horiz_angle, bc.lh_v1_vert_angle))
    # scaled cartesian vectors describe the same direction
    bs = LighthouseBsVector.from_cart([case['scale'] * float(c) for c in ref])
    if not (_close(bs.lh_v1_horiz_angle, h, 1e-9) and _close(bs.lh_v1_vert_angle, v, 1e-9)):
        out.fail('angles:from-cart', '%s scaled by %r -> (%.9f, %.9f)' % (desc, case['scale'], bs.lh_v1_horiz_angle, bs.lh_v1_vert_angle))
    # projection
    pr = vec.projection
    if abs(float(pr[0]) - y) > 1e-5 * max(1, abs(y)) or abs(float(pr[1]) - z) > 1e-5 * max(1, abs(z)):
        out.fail('angles:projection', '%s: projection %r, expected (%.6f, %.6f)' % (desc, pr.tolist(), y, z))
    bp = LighthouseBsVector.from_projection(pr)
    if not (_close(bp.lh_v1_horiz_angle, h, 1e-5) and _close(bp.lh_v1_vert_angle, v, 1e-5)):
        out.fail('angles:projection-roundtrip', '%s -> projection -> (%.9f, %.9f)' % (desc, bp.lh_v1_horiz_angle, bp.lh_v1_vert_angle))
    if vec.lh_v1_angle_pair != (h, v):
        out.fail('angles:pair', desc)
    # whichever way a vector was built, its Cartesian form is the unit vector of the same direction
    for how, obj in (('from_cart(scaled)', bs), ('from_cart', bc), ('from_lh2', back), ('from_projection', bp)):
        c2 = np.asarray(obj.cart, dtype=np.float64)
        if abs(float(np.linalg.norm(c2)) - 1.0) > 1e-5:
            out.fail('angles:cart-norm:' + how.split('(')[0], '%s: |%s.cart| = %r' % (desc, how, float(np.linalg.norm(c2))))
        elif np.max(np.abs(c2 - ref)) > 2e-5:
            out.fail('angles:cart-direction:' + how.split('(')[0], '%s: %s.cart %r, direction %r' % (desc, how, c2.tolist(), ref.tolist()))
    return out


def angle_lattice(tier):
    step = 1.0 if tier == 'quick' else 0.25
    nh = int(160 / step)
    nv = int(110 / step)
    k = 0
    for i in range(nh + 1):
        for j in range(nv + 1):
            yield {'h': math.radians(-80 + i * step), 'v': math.radians(-55 + j * step), 'scale': [1.0, 0.01, 250.0][k % 3]}
            k += 1


angle_strategy = st.builds(lambda h, v, s: {'h': h, 'v': v, 's': s, 'scale': s},
                           st.floats(-math.radians(80), math.radians(80), allow_nan=False), st.floats(-math.radians(55), math.radians(55), allow_nan=False),
                           st.sampled_from([1.0, 1e-3, 3.7, 1e3]))


# ---------------------------------------------------------------- poses
def _signed_perms():
    import itertools
    mats = []
    for perm in itertools.permutations(range(3)):
        for signs in itertools.product([1.0, -1.0], repeat=3):
            m = np.zeros((3, 3))
            for i in range(3):
                m[i, perm[i]] = signs[i]
            if abs(np.linalg.det(m) - 1.0) < 1e-12:
                mats.append(m)
    return mats


_EXACT = _signed_perms()      # the 24 rotations with exact 0/+-1 matrices (exact quarter and half turns)


def _mk(p):
    from cflib.localization.lighthouse_types import Pose
    if 'm' in p:
        return Pose(R_matrix=_EXACT[p['m'] % len(_EXACT)].copy(), t_vec=np.array(p['t'], dtype=float))
    return Pose.from_rot_vec(R_vec=np.array(p['r'], dtype=float), t_vec=np.array(p['t'], dtype=float))


def _peq(a, b, tol=1e-9):
    return np.max(np.abs(a.rot_matrix - b.rot_matrix)) <= tol and np.max(np.abs(a.translation - b.translation)) <= tol * 10


def run_poses(case):
    from cflib.localization.lighthouse_types import Pose
    out = Outcome()
    A, B, C = _mk(case['A']), _mk(case['B']), _mk(case['C'])
    pt = np.array(case['point'], dtype=float)
    special = any('m' in p or np.linalg.norm(p['r']) < 1e-6 or abs(np.linalg.norm(p['r']) - math.pi) < 1e-6 for p in (case['A'], case['B'], case['C']))
    out.nontrivial = special or True
    out.feat('special-rotation' if special else 'generic-rotation')
    desc = 'A=%r B=%r C=%r p=%r' % (case['A'], case['B'], case['C'], case['point'])
    for name, P in (('A', A), ('B', B), ('C', C)):
        R = P.rot_matrix
        if np.max(np.abs(R @ R.T - np.eye(3))) > 1e-9 or abs(np.linalg.det(R) - 1) > 1e-9:
            out.fail('pose:not-proper-rotation', '%s: %s' % (desc, name))
        # views agree
        try:
            views_ok = _peq(Pose.from_rot_vec(P.rot_vec, P.translation), P) and _peq(Pose.from_quat(P.rot_quat, P.translation), P)
        except Exception as e:  # noqa
            out.fail('pose:views-raise', '%s: %s: %r' % (desc, name, e))
            views_ok = True
        if not views_ok:
            out.fail('pose:views-disagree', '%s: %s' % (desc, name))
        # a quaternion names a rotation whatever its length (an average of quaternions, a rounded one ...): same pose, proper rotation
        for scale in (case.get('qscale', 1.0), -1.0):
            try:
                Q = Pose.from_quat(np.array(P.rot_quat, dtype=float) * scale, P.translation)
            except Exception as e:  # noqa
                out.fail('pose:views-raise', '%s: %s: quaternion scaled by %r: %r' % (desc, name, scale, e))
                continue
            if not _peq(Q, P, 1e-8):
                out.fail('pose:views-disagree:scaled-quaternion', '%s: %s: from_quat of the quaternion scaled by %r gives rotation %r, pose has %r' % (
                    desc, name, scale, Q.rot_matrix.tolist(), P.rot_matrix.tolist()))
        Rm, tv = P.matrix_vec
        if Rm is not P.rot_matrix and np.max(np.abs(Rm - P.rot_matrix)) > 0:
            out.fail('pose:matrix-vec', desc)
        # inverse undoes forward (points)
        q = P.inv_rotate_translate(P.rotate_translate(pt))
        q2 = P.rotate_translate(P.inv_rotate_translate(pt))
        if np.max(np.abs(q - pt)) > 1e-8 or np.max(np.abs(q2 - pt)) > 1e-8:
            out.fail('pose:point-inverse', '%s: %s' % (desc, name))
        # reference transform
        if np.max(np.abs(P.rotate_translate(pt) - (R @ pt + P.translation))) > 1e-9:
            out.fail('pose:rotate-translate', '%s: %s' % (desc, name))
    for name, P in (('A*B', A.rotate_translate_pose(B)), ('A^-1*B', A.inv_rotate_translate_pose(B))):
        try:
            ok = _peq(Pose.from_rot_vec(P.rot_vec, P.translation), P, 1e-8) and _peq(Pose.from_quat(P.rot_quat, P.translation), P, 1e-8)
        except Exception as e:  # noqa
            out.fail('pose:views-raise', '%s: %s: %r' % (desc, name, e))
            ok = True
        if not ok:
            out.fail('pose:views-disagree', '%s: %s' % (desc, name))
    # pose inverse
    if not _peq(A.inv_rotate_translate_pose(A.rotate_translate_pose(B)), B, 1e-8) or not _peq(A.rotate_translate_pose(A.inv_rotate_translate_pose(B)), B, 1e-8):
        out.fail('pose:pose-inverse', desc)
    # associativity
    left = A.rotate_translate_pose(B).rotate_translate_pose(C)
    right = A.rotate_translate_pose(B.rotate_translate_pose(C))
    if not _peq(left, right, 1e-8):
        out.fail('pose:associativity', desc)
    # composition == sequential application
    comp = A.rotate_translate_pose(B)
    if np.max(np.abs(comp.rotate_translate(pt) - A.rotate_translate(B.rotate_translate(pt)))) > 1e-8:
        out.fail('pose:composition', desc)
    icomp = A.inv_rotate_translate_pose(B)
    if np.max(np.abs(icomp.rotate_translate(pt) - A.inv_rotate_translate(B.rotate_translate(pt)))) > 1e-8:
        out.fail('pose:inverse-composition', desc)
    # inputs untouched
    if not _peq(A, _mk(case['A']), 0) or not _peq(B, _mk(case['B']), 0):
        out.fail('pose:inputs-modified', desc)
    # a point given with whole-number coordinates (a tuple or an integer array, e.g. a grid position) is the same point
    ipt = [int(round(x)) for x in case['point']]
    for name, P in (('A', A), ('B', B)):
        want = P.rot_matrix @ np.array(ipt, float) + P.translation
        for label, arg in (('tuple', tuple(ipt)), ('integer array', np.array(ipt))):
            got = np.asarray(P.rotate_translate(arg), float)
            if np.max(np.abs(got - want)) > 1e-9 * max(1.0, float(np.max(np.abs(want)))):
                out.fail('pose:rotate-translate:integer-point', '%s: %s applied to the %s %r gives %r, R p + t is %r' % (desc, name, label, ipt, got.tolist(), want.tolist()))
            back = np.asarray(P.inv_rotate_translate(P.rotate_translate(arg)), float)
            if np.max(np.abs(back - np.array(ipt, float))) > 1e-8 * max(1.0, float(np.max(np.abs(want)))):
                out.fail('pose:point-inverse:integer-point', '%s: %s, %s %r: inverse(forward(p)) = %r' % (desc, name, label, ipt, back.tolist()))
    # a pose that has been used and is then re-scaled (as the system scaler does with copies of the solved poses) is still a rigid motion
    import copy
    f = case.get('scale', 2.0)
    for name, S in (('scaled A', A), ('scaled copy of B', copy.copy(B))):
        t_before = np.array(S.translation, float)
        S.scale(f)
        if np.max(np.abs(S.translation - t_before * f)) > 1e-12 * max(1.0, abs(f)):
            out.fail('pose:scale', '%s: %s by %r' % (desc, name, f))
        q = S.inv_rotate_translate(S.rotate_translate(pt))
        q2 = S.rotate_translate(S.inv_rotate_translate(pt))
        if np.max(np.abs(q - pt)) > 1e-8 * max(1.0, abs(f)) or np.max(np.abs(q2 - pt)) > 1e-8 * max(1.0, abs(f)):
            out.fail('pose:point-inverse:after-scale', '%s: %s by %r: inverse(forward(p)) = %r' % (desc, name, f, q.tolist()))
        if not _peq(S.inv_rotate_translate_pose(S.rotate_translate_pose(C)), C, 1e-8 * max(1.0, abs(f))):
            out.fail('pose:pose-inverse:after-scale', '%s: %s by %r' % (desc, name, f))
    return out


_axis = st.sampled_from([[1, 0, 0], [0, 1, 0], [0, 0, 1], [1, 1, 0], [0, 1, 1], [1, 1, 1], [1, -2, 0.5]])


@st.composite
def _rotvec(draw):
    kind = draw(st.sampled_from(['zero', 'half', 'tiny', 'random', 'random', 'random', 'quarter']))
    if kind == 'zero':
        return [0.0, 0.0, 0.0]
    ax = np.array(draw(_axis), dtype=float)
    if kind == 'random':
        ax = np.array([draw(st.floats(-1, 1, allow_nan=False)) for _ in range(3)])
        if np.linalg.norm(ax) < 1e-3:
            ax = np.array([0.0, 0.0, 1.0])
    ax = ax / np.linalg.norm(ax)
    ang = {'half': math.pi, 'tiny': 1e-9, 'quarter': math.pi / 2}.get(kind)
    if ang is None:
        ang = draw(st.floats(0.0, math.pi, allow_nan=False))
    return [float(x) for x in ax * ang]


_trans = st.lists(st.one_of(st.floats(-10, 10, allow_nan=False), st.sampled_from([0.0, 1.0, -10.0])), min_size=3, max_size=3)
_pose = st.one_of(st.fixed_dictionaries({'r': _rotvec(), 't': _trans}), st.fixed_dictionaries({'r': _rotvec(), 't': _trans}),
                  st.fixed_dictionaries({'m': st.integers(0, 23), 't': _trans}))
pose_strategy = st.fixed_dictionaries({'A': _pose, 'B': _pose, 'C': _pose, 'point': _trans, 'scale': st.sampled_from([0.5, 2.0, 1.26, 1.0, 0.2, 5.0]),
                                       'qscale': st.sampled_from([1.0, 2.0, 0.5, 1.001, 0.999, 1e-3, 37.0])})


# ---------------------------------------------------------------- solver projection
def run_solver(case):
    from cflib.localization.lighthouse_bs_vector import LighthouseBsVector
    from cflib.localization.lighthouse_geometry_solver import LighthouseGeometrySolution, LighthouseGeometrySolver
    from cflib.localization.lighthouse_types import LhDeck4SensorPositions, Pose
    out = Outcome()
    pairs = case['pairs']
    defs = LighthouseGeometrySolution()
    sens = LhDeck4SensorPositions.positions
    bs_p, cf_p, sp, ref = [], [], [], []
    bs_lib, cf_lib = [], []
    special = False
    for pr in pairs:
        bs_r, bs_t, cf_r, cf_t = np.array(pr['bs_r'], float), np.array(pr['bs_t'], float), np.array(pr['cf_r'], float), np.array(pr['cf_t'], float)
        if np.linalg.norm(bs_r) == 0 or np.linalg.norm(cf_r) == 0 or np.linalg.norm(bs_r) > math.pi - 1e-5 or np.linalg.norm(cf_r) > math.pi - 1e-5:
            special = True
        bsP = Pose.from_rot_vec(bs_r, bs_t)
        cfP = Pose.from_rot_vec(cf_r, cf_t)
        for si in range(4):
            g = cfP.rotate_translate(sens[si])
            p = bsP.inv_rotate_translate(g)
            if abs(p[0]) < 0.05:
                continue        # on/near the plane x=0 both paths are ill-conditioned
            bs_p.append(np.concatenate((bs_r, bs_t)))
            cf_p.append(np.concatenate((cf_r, cf_t)))
            # the parameters as the solver itself derives them from the pose objects
            bs_lib.append(np.asarray(LighthouseGeometrySolver._pose_to_params(bsP), float))
            cf_lib.append(np.asarray(LighthouseGeometrySolver._pose_to_params(cfP), float))
            sp.append(sens[si])
            v = LighthouseBsVector.from_cart(p)
            ref.append((math.atan2(p[1], p[0]), math.atan2(p[2], p[0]), v.lh_v1_horiz_angle, v.lh_v1_vert_angle))
    out.nontrivial = special and bool(ref)
    out.feat('zero-or-beyond-pi' if special else 'ordinary', 'rows-%d' % min(len(ref), 5))
    if not ref:
        return out
    got = LighthouseGeometrySolver._calc_angle_pairs(np.array(bs_p), np.array(cf_p), np.array(sp), defs)
    def _ad(a, b):
        return abs((a - b + math.pi) % (2 * math.pi) - math.pi)
    for k, r in enumerate(ref):
        if _ad(got[k][0], r[0]) > 1e-9 or _ad(got[k][1], r[1]) > 1e-9 or _ad(got[k][0], r[2]) > 1e-9 or _ad(got[k][1], r[3]) > 1e-9:
            out.fail('solver:projection-mismatch' + (':beyond-pi' if np.linalg.norm(bs_p[k][:3]) > math.pi or np.linalg.norm(cf_p[k][:3]) > math.pi else
                                                     ':zero-rotation' if np.linalg.norm(bs_p[k][:3]) == 0 or np.linalg.norm(cf_p[k][:3]) == 0 else ''),
                     'bs %r cf %r sensor %r: solver (%.9f, %.9f), Pose/atan2 (%.9f, %.9f)' % (bs_p[k].tolist(), cf_p[k].tolist(), sp[k].tolist(),
                                                                                         got[k][0], got[k][1], r[0], r[1]))
            break
    # the solver's indexed entry point (one row per angle pair, poses looked up through index arrays), with as many rows as a long
    # recording has: every row must still be the projection defined by the pose types
    nrows = case.get('rows')
    if nrows and hasattr(LighthouseGeometrySolver, '_poses_to_angle_pairs'):
        idx = np.resize(np.arange(len(ref)), nrows)
        big = LighthouseGeometrySolver._poses_to_angle_pairs(np.array(bs_p), np.array(cf_p), np.array(sp), idx, idx, idx, defs)
        out.feat('indexed-batch-%d' % nrows)
        out.nontrivial = True
        big = np.asarray(big)
        if big.shape[0] != nrows:
            out.fail('solver:projection-mismatch:batch-shape', '%d rows asked for, %r returned' % (nrows, big.shape))
        else:
            for k in range(nrows):
                r = ref[idx[k]]
                if _ad(big[k][0], r[0]) > 1e-9 or _ad(big[k][1], r[1]) > 1e-9:
                    out.fail('solver:projection-mismatch:long-batch', 'row %d of %d (pair %d): solver (%.9f, %.9f), Pose/atan2 (%.9f, %.9f)' % (
                        k, nrows, idx[k], big[k][0], big[k][1], r[0], r[1]))
                    break
    got2 = LighthouseGeometrySolver._calc_angle_pairs(np.array(bs_lib), np.array(cf_lib), np.array(sp), defs)
    for k, r in enumerate(ref):
        if _ad(got2[k][0], r[0]) > 1e-7 or _ad(got2[k][1], r[1]) > 1e-7:
            out.fail('solver:pose-to-params', 'bs %r cf %r sensor %r: with the solver\'s own parameters %r / %r it projects to (%.9f, %.9f), Pose/atan2 (%.9f, %.9f)' % (
                bs_p[k].tolist(), cf_p[k].tolist(), sp[k].tolist(), bs_lib[k].tolist(), cf_lib[k].tolist(), got2[k][0], got2[k][1], r[0], r[1]))
            break
    return out


@st.composite
def _anyrotvec(draw):
    kind = draw(st.sampled_from(['zero', 'beyond', 'normal', 'normal', 'yaw', 'half-turn']))
    if kind == 'zero':
        return [0.0, 0.0, 0.0]
    if kind == 'half-turn':
        # exactly (or within a hair of) half a turn: facing backwards, upside down, about a diagonal
        ax = np.array(draw(st.sampled_from([[1.0, 0, 0], [0, 1.0, 0], [0, 0, 1.0], [1.0, 1.0, 0], [0, 1.0, -1.0], [1.0, 1.0, 1.0], [1.0, 2.0, 2.0], [2.0, 3.0, 6.0],
                                          [-2.0, 1.0, 2.0]])), float)
        ax = ax / np.linalg.norm(ax)
        ang = math.pi + draw(st.sampled_from([0.0, 0.0, 1e-9, -1e-9, 1e-7, -1e-6]))
        return [float(x) for x in ax * ang]
    ax = np.array([draw(st.floats(-1, 1, allow_nan=False)) for _ in range(3)])
    if np.linalg.norm(ax) < 1e-3 or kind == 'yaw':
        ax = np.array([0.0, 0.0, 1.0])
    ax = ax / np.linalg.norm(ax)
    ang = draw(st.floats(math.pi + 0.001, 2 * math.pi - 0.001)) if kind == 'beyond' else draw(st.floats(0.0, math.pi))
    return [float(x) for x in ax * ang]


_pair = st.fixed_dictionaries({'bs_r': _anyrotvec(), 'bs_t': st.lists(st.floats(-4, 4, allow_nan=False), min_size=3, max_size=3),
                               'cf_r': _anyrotvec(), 'cf_t': st.lists(st.floats(-2, 2, allow_nan=False), min_size=3, max_size=3)})
solver_strategy = st.fixed_dictionaries({'pairs': st.lists(_pair, min_size=1, max_size=6),
                                         'rows': st.sampled_from([None, None, None, None, 7, 1023, 1024, 1025, 1048, 2049, 4100])})


def subchecks(tier):
    return [
        Sub('angle-lattice', run_angles, cases=angle_lattice, distinct_by_construction=True),
        Sub('angles-random', run_angles, strategy=angle_strategy, examples={'quick': 1500, 'thorough': 100000}),
        Sub('poses', run_poses, strategy=pose_strategy, examples={'quick': 800, 'thorough': 40000}),
        Sub('solver-projection', run_solver, strategy=solver_strategy, examples={'quick': 800, 'thorough': 40000}),
    ]
