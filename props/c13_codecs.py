"""C13 numeric wire codecs: half floats, quaternion compression, compressed trajectory units, RGB565, range/angle streams."""
import math
import struct
from fractions import Fraction

import numpy as np
from hypothesis import strategies as st

from vlib.runner import Outcome, Sub

PROPERTY = 'C13'
LEVEL = 'exploration'
SHARDS = {'quick': 4, 'thorough': 16}
RULE = ('fp16: all 65 536 bit patterns enumerated (also as the signed-short view used by the LH angle decoder) against numpy.float16; '
        'non-trivial = zero/subnormal/inf/NaN/negative classes plus every normal pattern (each pattern is a distinct case). '
        'rgb565: every (channel, intensity) row over all 256 levels and every (channel, level) column over intensities 0..100, plus '
        'random 12-LED frames (no bleed across LEDs/fields); quaternions: lattice incl. exact ties, negations and scalings + random; '
        'non-trivial = tie, negated largest component or scale != 1. trajectory: coordinates/yaw across and beyond int16, non-trivial = '
        'within 2 units of the int16 limit or beyond it. streams: reference-encoded packets; non-trivial = >=2 anchors / signed-zero, '
        'subnormal or negative half-float offsets.')
ASSUMPTIONS = ['numpy.float16 is a correct IEEE-754 binary16 implementation (reference oracle)',
               'RGB565 layout: big-endian 16-bit word, R in bits 15..11, G 10..5, B 4..0 (firmware ledring12 layout)',
               'trajectory/yaw inputs whose exact product lies within 1e-6 of the int16 limit are excluded by construction (float rounding '
               'of the product makes raise/accept ambiguous there)']


# ---------------------------------------------------------------- fp16
def _fp16_class(bits):
    e = (bits >> 10) & 0x1f
    f = bits & 0x3ff
    if e == 0:
        return 'zero' if f == 0 else 'subnormal'
    if e == 31:
        return 'inf' if f == 0 else 'nan'
    return 'normal'


def run_fp16(case):
    from cflib.utils.encoding import fp16_to_float
    out = Outcome()
    bits = case['bits']
    cls = _fp16_class(bits)
    neg = bits >> 15
    out.feat('fp16-' + cls, 'fp16-neg' if neg else 'fp16-pos')
    out.nontrivial = True
    ref = float(np.array([bits], dtype=np.uint16).view(np.float16)[0])
    for view, arg in (('u16', bits), ('i16', bits - 65536 if bits >= 32768 else bits)):
        try:
            got = fp16_to_float(arg)
        except Exception as e:  # noqa
            out.fail('fp16:%s:%s:raises' % (cls, 'neg' if neg else 'pos'), '%s(0x%04x) raised %r' % (view, bits, e))
            continue
        ok = isinstance(got, (int, float)) and not isinstance(got, bool)
        if ok:
            got = float(got) if abs(got) < 1e300 else got
            if math.isnan(ref):
                ok = isinstance(got, float) and math.isnan(got)
            else:
                ok = (got == ref) and (math.copysign(1.0, got) == math.copysign(1.0, ref))
        if not ok:
            out.fail('fp16:%s:%s' % (cls, 'neg' if neg else 'pos'),
                     'fp16_to_float(%s 0x%04x) = %r, IEEE binary16 value is %r' % (view, bits, got, ref))
    return out


def fp16_cases(tier):
    for b in range(65536):
        yield {'bits': b}


# ---------------------------------------------------------------- rgb565
class _MemRec:
    def __init__(self):
        self.writes = []

    def write(self, mem, addr, data, flush_queue=False):
        self.writes.append((addr, bytes(data)))
        return True


def _led_frame(leds):
    """leds: list of 12 (r,g,b,intensity) -> 24 bytes written by LEDDriverMemory.write_data"""
    from cflib.crazyflie.mem.led_driver_memory import LEDDriverMemory
    h = _MemRec()
    m = LEDDriverMemory(id=1, type=0x10, size=24, mem_handler=h)
    for led, (r, g, b, i) in zip(m.leds, leds):
        led.r, led.g, led.b = r, g, b
        led.intensity = i
    m.write_data(None)
    assert len(h.writes) == 1
    return h.writes[0]


def _fields(two):
    w = (two[0] << 8) | two[1]
    return (w >> 11) & 0x1f, (w >> 5) & 0x3f, w & 0x1f


_MAXF = (31, 63, 31)


def run_led(case):
    out = Outcome(nontrivial=True)
    ch = case['channel']
    kind = case['kind']
    seq = []
    if kind == 'levels':
        inten = case['intensity']
        out.feat('led-levels')
        for lvl in range(256):
            rgb = [0, 0, 0]
            rgb[ch] = lvl
            addr, data = _led_frame([(rgb[0], rgb[1], rgb[2], inten)] + [(0, 0, 0, 100)] * 11)
            if addr != 0 or len(data) != 24:
                out.fail('led:frame-shape', 'addr %r len %d' % (addr, len(data)))
                return out
            f = _fields(data[0:2])
            others = [f[k] for k in range(3) if k != ch]
            if any(others) or any(data[2:]):
                out.fail('led:bleed', 'channel %d level %d intensity %d -> fields %r rest %r' % (ch, lvl, inten, f, data[2:].hex()))
            seq.append(f[ch])
        if seq[0] != 0:
            out.fail('led:black-nonzero', 'level 0 -> %d' % seq[0])
        if any(b < a for a, b in zip(seq, seq[1:])):
            out.fail('led:not-monotone-level', 'channel %d intensity %d: %r' % (ch, inten, seq))
        if inten == 100:
            if seq[255] != _MAXF[ch]:
                out.fail('led:white-not-fullscale', 'channel %d level 255 -> %d' % (ch, seq[255]))
            if set(seq) != set(range(_MAXF[ch] + 1)):
                out.fail('led:levels-skipped', 'channel %d reaches %r' % (ch, sorted(set(seq))))
        if inten == 0 and any(seq):
            out.fail('led:intensity0-nonzero', repr(seq))
    elif kind == 'intensities':
        lvl = case['level']
        out.feat('led-intensities')
        for inten in range(101):
            rgb = [0, 0, 0]
            rgb[ch] = lvl
            addr, data = _led_frame([(0, 0, 0, 100)] * 5 + [(rgb[0], rgb[1], rgb[2], inten)] + [(0, 0, 0, 100)] * 6)
            f = _fields(data[10:12])
            if any(data[:10]) or any(data[12:]) or any(f[k] for k in range(3) if k != ch):
                out.fail('led:bleed', 'led5 channel %d level %d intensity %d -> %s' % (ch, lvl, inten, data.hex()))
            seq.append(f[ch])
        if any(b < a for a, b in zip(seq, seq[1:])):
            out.fail('led:not-monotone-intensity', 'channel %d level %d: %r' % (ch, lvl, seq))
        if seq[0] != 0:
            out.fail('led:intensity0-nonzero', repr(seq[0]))
    elif kind == 'timings':
        from cflib.crazyflie.mem.led_timings_driver_memory import LEDTimingsDriverMemory
        out.feat('led-timings')
        for lvl in range(256):
            h = _MemRec()
            m = LEDTimingsDriverMemory(id=1, type=0x17, size=100, mem_handler=h)
            rgb = {'r': 0, 'g': 0, 'b': 0}
            rgb['rgb'[ch]] = lvl
            m.add(time=5, rgb=rgb, leds=0, fade=False, rotate=0)
            m.write_data(None)
            data = h.writes[0][1]
            if len(data) != 8 or data[4:] != b'\0\0\0\0' or data[0] != 5 or data[3] != 0:
                out.fail('led:timings-shape', data.hex())
                return out
            f = _fields(data[1:3])
            if any(f[k] for k in range(3) if k != ch):
                out.fail('led:bleed', 'timings channel %d level %d -> %r' % (ch, lvl, f))
            seq.append(f[ch])
        if seq[0] != 0 or seq[255] != _MAXF[ch] or any(b < a for a, b in zip(seq, seq[1:])):
            out.fail('led:timings-not-monotone', repr(seq))
    return out


def led_cases(tier):
    for ch in range(3):
        for inten in range(101):
            yield {'kind': 'levels', 'channel': ch, 'intensity': inten}
        for lvl in range(256):
            yield {'kind': 'intensities', 'channel': ch, 'level': lvl}
        yield {'kind': 'timings', 'channel': ch}


led_frame_strategy = st.lists(st.tuples(st.integers(0, 255), st.integers(0, 255), st.integers(0, 255), st.integers(0, 100)),
                              min_size=12, max_size=12).map(lambda l: {'leds': [list(x) for x in l]})


def run_led_frame(case):
    out = Outcome()
    leds = [tuple(x) for x in case['leds']]
    addr, data = _led_frame(leds)
    lit = sum(1 for l in leds if any(l[:3]) and l[3])
    out.nontrivial = lit >= 2
    out.feat('frame-lit-%d' % min(lit, 3))
    if addr != 0 or len(data) != 24:
        out.fail('led:frame-shape', 'addr %r len %d' % (addr, len(data)))
        return out
    for i, led in enumerate(leds):
        f = _fields(data[2 * i:2 * i + 2])
        # each field depends only on its own channel and the intensity (no bleed), measured on a lone LED 0
        for ch in range(3):
            rgb = [0, 0, 0]
            rgb[ch] = led[ch]
            _, alone = _led_frame([(rgb[0], rgb[1], rgb[2], led[3])] + [(0, 0, 0, 100)] * 11)
            if _fields(alone[0:2])[ch] != f[ch]:
                out.fail('led:bleed', 'led %d %r: field %d is %d in frame but %d alone' % (i, led, ch, f[ch], _fields(alone[0:2])[ch]))
    return out


# ---------------------------------------------------------------- quaternions
_STEP = 1.0 / 511 / math.sqrt(2)


def run_quat(case):
    from cflib.utils.encoding import compress_quaternion, decompress_quaternion
    out = Outcome()
    q = [float(v) for v in case['q']]
    scale = case.get('scale', 1.0)
    qs = [v * scale for v in q]
    norm = math.sqrt(sum(v * v for v in q))
    qn = [v / norm for v in q]
    a = sorted((abs(v) for v in qn), reverse=True)
    tie = abs(a[0] - a[1]) < 1e-12
    imax = max(range(4), key=lambda i: abs(qn[i]))
    neg = qn[imax] < 0
    out.nontrivial = tie or neg or scale != 1.0
    out.feat('quat-tie' if tie else 'quat-notie', 'quat-neg-largest' if neg else 'quat-pos-largest',
             'quat-scaled' if scale != 1.0 else 'quat-unit-scale')
    try:
        comp = compress_quaternion(qs)
        if not (0 <= int(comp) < (1 << 32)):
            out.fail('quat:not-32bit', 'compress(%r) = %r' % (qs, comp))
            return out
        d = decompress_quaternion(int(comp))
    except Exception as e:  # noqa
        out.fail('quat:raises', 'q=%r: %r' % (qs, e))
        return out
    d = [float(v) for v in d]
    if any(math.isnan(v) for v in d):
        out.fail('quat:nan', 'q=%r -> %r' % (qs, d))
        return out
    dot = sum(x * y for x, y in zip(d, qn))
    s = 1.0 if dot >= 0 else -1.0
    err = max(abs(s * x - y) for x, y in zip(d, qn))
    if err > 2 * _STEP + 1e-12:
        out.fail('quat:error', 'q=%r scale=%r -> comp=0x%08x -> %r: max component error %.6f > %.6f' % (q, scale, comp, d, err, 2 * _STEP))
    return out


def quat_lattice(tier):
    vals = [-1.0, -0.5, 0.0, 0.5, 1.0] if tier == 'quick' else [-1.0, -0.75, -0.5, -0.25, 0.0, 0.25, 0.5, 0.75, 1.0]
    scales = [1.0, 1e-6, 1e6] if tier == 'quick' else [1.0, 1e-6, 1e-3, 3.0, 1e3, 1e6]
    import itertools
    for q in itertools.product(vals, repeat=4):
        if not any(q):
            continue
        for s in scales:
            yield {'q': list(q), 'scale': s}


_comp = st.one_of(st.floats(-1, 1, allow_nan=False), st.sampled_from([0.0, 1.0, -1.0, 0.5, -0.5, 1e-9, -1e-9, 0.70710678]))
quat_strategy = st.tuples(st.lists(_comp, min_size=4, max_size=4), st.sampled_from([1.0, 1.0, 1e-6, 1e-3, 7.5, 1e6])) \
    .filter(lambda t: math.sqrt(sum(v * v for v in t[0])) > 1e-6) \
    .map(lambda t: {'q': t[0], 'scale': t[1]})


# ---------------------------------------------------------------- trajectory units
def _borderline(exact):
    a = abs(exact)
    return abs(a - 32768) < Fraction(1, 10 ** 6) or abs(a - 32769) < Fraction(1, 10 ** 6)


def _unit_check(out, label, value, units_per, got_or_exc):
    """value: python float input; exact = Fraction(value)*units_per. returns nothing; adds violations."""
    exact = Fraction(value) * units_per
    if _borderline(exact):
        out.feat('excluded-boundary')
        return
    in_range = -32769 < exact < 32768
    if isinstance(got_or_exc, Exception):
        if in_range:
            out.fail('traj:%s:raises-in-range' % label, 'value %r (%.3f units): %r' % (value, float(exact), got_or_exc))
        return
    if not in_range:
        out.fail('traj:%s:wrapped' % label, 'value %r (%.3f units) encoded as %d instead of raising' % (value, float(exact), got_or_exc))
    elif abs(Fraction(got_or_exc) - exact) >= 1:
        out.fail('traj:%s:error' % label, 'value %r (%.3f units) encoded as %d' % (value, float(exact), got_or_exc))


def run_traj(case):
    from cflib.crazyflie.mem.trajectory_memory import CompressedSegment, CompressedStart
    out = Outcome()
    kind = case['kind']
    # yaw reference: exact value of math.degrees(angle)*10 is not representable; use the float the
    # documented formula yields (tenths of a degree) evaluated in exact rationals from the float degrees
    def yaw_units(a):
        return Fraction(math.degrees(a)) * 10

    def near_limit(v, per):
        return abs(Fraction(v) * per) > 32766
    if kind == 'start':
        xyz = case['xyz']
        yaw = case['yaw']
        out.nontrivial = any(near_limit(v, 1000) for v in xyz) or abs(yaw_units(yaw)) > 32766
        out.feat('start-limit' if out.nontrivial else 'start-inner')
        vals = list(xyz) + [yaw]
        # field by field so that one overflowing field does not hide the others
        for idx, (name, per) in enumerate((('x', 1000), ('y', 1000), ('z', 1000), ('yaw', None))):
            probe = [0.0, 0.0, 0.0, 0.0]
            probe[idx] = vals[idx]
            try:
                data = bytes(CompressedStart(*probe).pack())
                if len(data) != 8:
                    out.fail('traj:start-shape', data.hex())
                    continue
                dec = struct.unpack('<hhhh', data)
                if any(dec[j] for j in range(4) if j != idx):
                    out.fail('traj:start-bleed', '%r -> %r' % (probe, dec))
                got = dec[idx]
            except Exception as e:  # noqa
                got = e
            if per:
                _unit_check(out, 'spatial', vals[idx], per, got)
            else:
                _yaw_check(out, vals[idx], got)
    else:
        els = case['elements']  # 4 lists of len 0/1/3/7
        dur = case['duration']
        flat = [v for e in els[:3] for v in e]
        out.nontrivial = any(near_limit(v, 1000) for v in flat) or any(abs(yaw_units(v)) > 32766 for v in els[3])
        out.feat('segment-limit' if out.nontrivial else 'segment-inner', 'seg-lens-%s' % ''.join(str(len(e)) for e in els))
        expect_raise = any(not (-32769 < Fraction(v) * 1000 < 32768) for v in flat) or \
            any(not (-32769 < yaw_units(v) < 32768) for v in els[3])
        borderline = any(_borderline(Fraction(v) * 1000) for v in flat) or any(_borderline(yaw_units(v)) for v in els[3])
        if borderline:
            out.feat('excluded-boundary')
            return out
        try:
            seg = CompressedSegment(dur, *els)
            data = bytes(seg.pack())
        except Exception as e:  # noqa
            if not expect_raise:
                out.fail('traj:segment:raises-in-range', '%r: %r' % (case, e))
            return out
        if not expect_raise:
            # the same segment object written a second time (a second trajectory slot, a second Crazyflie): same bytes
            again = bytes(seg.pack())
            if again != data:
                out.fail('traj:segment:second-pack-differs', '%r: first pack %s, second pack of the same object %s' % (case, data.hex(), again.hex()))
        if expect_raise:
            out.fail('traj:segment:wrapped', '%r encoded as %s instead of raising' % (case, data.hex()))
            return out
        n = sum(len(e) for e in els)
        if len(data) != 3 + 2 * n:
            out.fail('traj:segment-shape', 'len %d for %d values' % (len(data), n))
            return out
        types, dms = struct.unpack('<BH', data[:3])
        code = {0: 0, 1: 1, 3: 2, 7: 3}
        want_types = sum(code[len(e)] << (2 * k) for k, e in enumerate(els))
        if types != want_types:
            out.fail('traj:segment-types', 'types byte 0x%02x, expected 0x%02x' % (types, want_types))
        if abs(Fraction(dms) - Fraction(dur) * 1000) >= 1:
            out.fail('traj:segment-duration', 'duration %r -> %d ms' % (dur, dms))
        dec = struct.unpack('<%dh' % n, data[3:])
        k = 0
        for ei, e in enumerate(els):
            for v in e:
                exact = Fraction(v) * 1000 if ei < 3 else yaw_units(v)
                if abs(Fraction(dec[k]) - exact) >= 1:
                    out.fail('traj:segment:error', 'element %d value %r (%.3f units) encoded as %d' % (ei, v, float(exact), dec[k]))
                k += 1
    return out


def _yaw_check(out, angle, got):
    exact = Fraction(math.degrees(angle)) * 10
    if _borderline(exact):
        out.feat('excluded-boundary')
        return
    in_range = -32769 < exact < 32768
    if isinstance(got, Exception):
        if in_range:
            out.fail('traj:yaw:raises-in-range', 'yaw %r rad (%.3f units): %r' % (angle, float(exact), got))
        return
    if not in_range:
        out.fail('traj:yaw:wrapped', 'yaw %r rad (%.3f units) encoded as %d instead of raising' % (angle, float(exact), got))
    elif abs(Fraction(got) - exact) >= 1:
        out.fail('traj:yaw:error', 'yaw %r rad (%.3f units) encoded as %d' % (angle, float(exact), got))


_coord = st.one_of(st.floats(-40, 40, allow_nan=False),
                   st.sampled_from([0.0, -0.0, 32.767, -32.768, 32.7675, -32.7685, 32.769, -32.769, 32.7665, 1e-4, -1e-4, 0.0005, 0.9999]),
                   st.integers(-32770, 32770).map(lambda k: k / 1000.0),
                   st.integers(-32770, 32770).flatmap(lambda k: st.floats(0.01, 0.99).map(lambda f: (k + (f if k >= 0 else -f)) / 1000.0)))
_yaw = st.one_of(st.floats(-70, 70, allow_nan=False),
                 st.sampled_from([0.0, math.pi, -math.pi, math.radians(3276.7), math.radians(-3276.8), math.radians(3276.85), math.radians(-3276.95), 57.2]),
                 st.integers(-32770, 32770).map(lambda k: math.radians(k / 10.0 + 0.05 * (1 if k >= 0 else -1))))
_elem = lambda s: st.sampled_from([0, 1, 3, 7]).flatmap(lambda n: st.lists(s, min_size=n, max_size=n))  # noqa
_coord_in = st.one_of(st.floats(-32.7, 32.7, allow_nan=False), st.integers(-32767, 32767).map(lambda k: k / 1000.0))
_yaw_in = st.floats(-57.0, 57.0, allow_nan=False)
traj_strategy = st.one_of(
    st.tuples(st.lists(_coord, min_size=3, max_size=3), _yaw).map(lambda t: {'kind': 'start', 'xyz': t[0], 'yaw': t[1]}),
    st.tuples(st.floats(0, 65.0, allow_nan=False), _elem(_coord_in), _elem(_coord_in), _elem(_coord_in), _elem(_yaw_in))
    .map(lambda t: {'kind': 'segment', 'duration': t[0], 'elements': [t[1], t[2], t[3], t[4]]}),
    st.tuples(st.floats(0, 65.0, allow_nan=False), _elem(_coord), _elem(_coord_in), _elem(_coord), _elem(_yaw))
    .map(lambda t: {'kind': 'segment', 'duration': t[0], 'elements': [t[1], t[2], t[3], t[4]]}),
)


# ---------------------------------------------------------------- streams
class _FakeCf:
    def __init__(self):
        self.cbs = []
        self.sent = []

    def add_port_callback(self, port, cb):
        self.cbs.append((port, cb))

    def send_packet(self, pk, *a, **k):
        self.sent.append(pk)


def _f32(x):
    return struct.unpack('<f', struct.pack('<f', x))[0]


def run_stream(case):
    from cflib.crazyflie.localization import Localization
    from cflib.crtp.crtpstack import CRTPPacket
    out = Outcome()
    cf = _FakeCf()
    loc = Localization(cf)
    got = []
    loc.receivedLocationPacket.add_callback(lambda p: got.append(p))
    if len(cf.cbs) != 1 or cf.cbs[0][0] != 6:
        out.fail('stream:registration', repr(cf.cbs))
        return out
    pk = CRTPPacket()
    pk.set_header(6, 1)
    if case['kind'] == 'range':
        anchors = case['anchors']  # list of [id, float32 bits]
        body = b''.join(struct.pack('<BI', a, bits) for a, bits in anchors)
        pk.data = bytes([0]) + body
        out.nontrivial = len(anchors) >= 2
        out.feat('range-%d' % len(anchors))
        cf.cbs[0][1](pk)
        if len(got) != 1:
            out.fail('stream:range-delivery', '%d callbacks' % len(got))
            return out
        p = got[0]
        want = {a: struct.unpack('<f', struct.pack('<I', bits))[0] for a, bits in anchors}
        ok = p.type == 0 and bytes(p.raw_data) == body and isinstance(p.data, dict) and set(p.data) == set(want)
        if ok:
            for a in want:
                g, w = p.data[a], want[a]
                if not ((math.isnan(g) and math.isnan(w)) or (g == w and math.copysign(1, g) == math.copysign(1, w))):
                    ok = False
        if not ok:
            out.fail('stream:range-decode', 'anchors %r decoded as %r' % (want, p.data))
    else:
        bs = case['bs']
        bx, by = case['base']  # float32 bit patterns
        offs = case['offsets']  # 6 uint16 patterns
        fx = struct.unpack('<f', struct.pack('<I', bx))[0]
        fy = struct.unpack('<f', struct.pack('<I', by))[0]
        pk.data = bytes([10]) + struct.pack('<BfHHHfHHH', bs, fx, offs[0], offs[1], offs[2], fy, offs[3], offs[4], offs[5])
        classes = set(_fp16_class(o) for o in offs)
        out.nontrivial = bool(classes & {'zero', 'subnormal'}) or any(o >> 15 for o in offs)
        for c in classes:
            out.feat('lh-offset-' + c)
        if any(o >> 15 for o in offs):
            out.feat('lh-offset-negative')
        if 0x8000 in offs:
            out.feat('lh-offset-negzero')
        try:
            cf.cbs[0][1](pk)
        except Exception as e:  # noqa
            out.fail('stream:lh-raises', '%r: %r' % (case, e))
            return out
        if len(got) != 1:
            out.fail('stream:lh-delivery', '%d callbacks' % len(got))
            return out
        p = got[0]
        ref = [float(np.array([o], dtype=np.uint16).view(np.float16)[0]) for o in offs]
        wx = [fx] + [fx - r for r in ref[:3]]
        wy = [fy] + [fy - r for r in ref[3:]]
        d = p.data
        ok = p.type == 10 and isinstance(d, dict) and d.get('basestation') == bs
        if ok:
            for g, w in zip(list(d['x']) + list(d['y']), wx + wy):
                if not (isinstance(g, float) and abs(g - w) <= 1e-6 * max(1.0, abs(w))):
                    ok = False
        if not ok:
            cls = 'negzero' if 0x8000 in offs else 'other'
            out.fail('stream:lh-decode:' + cls, 'bs %d base (%r,%r) offsets %r: expected x=%r y=%r got %r' % (bs, fx, fy, offs, wx, wy, d))
    # what was decoded stays what it is: a consumer may keep the packet while later packets of the same kind are decoded
    import copy
    snap = copy.deepcopy(p.data)
    for k2 in range(2):
        pk2 = CRTPPacket()
        pk2.set_header(6, 1)
        if case['kind'] == 'range':
            pk2.data = bytes([0]) + struct.pack('<Bf', 7 + k2, 1.5 + k2) + struct.pack('<Bf', 200, -3.25)
        else:
            pk2.data = bytes([10]) + struct.pack('<BfHHHfHHH', (case['bs'] + 1 + k2) & 0xff, 0.75 + k2, 0x3c00, 0x3800, 0xb800, -0.25, 0x3400, 0xbc00, 0x0001)
        try:
            cf.cbs[0][1](pk2)
        except Exception:  # noqa
            break

    def _same(a, b):
        if isinstance(a, dict):
            return isinstance(b, dict) and set(a) == set(b) and all(_same(a[k_], b[k_]) for k_ in a)
        if isinstance(a, (list, tuple)):
            return isinstance(b, (list, tuple)) and len(a) == len(b) and all(_same(x, y) for x, y in zip(a, b))
        if isinstance(a, float) and isinstance(b, float):
            return (math.isnan(a) and math.isnan(b)) or a == b
        return a == b
    if not _same(p.data, snap):
        out.fail('stream:result-changed-by-later-packet', '%s packet decoded as %r, after two more packets the same object reads %r' % (case['kind'], snap, p.data))
    return out


_f32bits_finite = st.one_of(
    st.floats(-1e4, 1e4, allow_nan=False, width=32).map(lambda f: struct.unpack('<I', struct.pack('<f', f))[0]),
    st.sampled_from([0, 0x80000000, 0x3f800000, 0x7f7fffff, 0x00000001, 0xff7fffff]))
_f32bits_any = st.one_of(_f32bits_finite, st.integers(0, 0xffffffff))
_angle_bits = st.floats(-2.0, 2.0, allow_nan=False, width=32).map(lambda f: struct.unpack('<I', struct.pack('<f', f))[0])
_off = st.one_of(st.integers(0, 0x7bff), st.integers(0x8000, 0xfbff),
                 st.sampled_from([0x0000, 0x8000, 0x0001, 0x8001, 0x03ff, 0x0400, 0x3c00, 0xbc00, 0x2e66, 0xae66]))
stream_strategy = st.one_of(
    st.lists(st.tuples(st.integers(0, 255), _f32bits_any), min_size=0, max_size=5, unique_by=lambda t: t[0])
    .map(lambda l: {'kind': 'range', 'anchors': [list(x) for x in l]}),
    st.tuples(st.integers(0, 255), _angle_bits, _angle_bits, st.lists(_off, min_size=6, max_size=6))
    .map(lambda t: {'kind': 'lh', 'bs': t[0], 'base': [t[1], t[2]], 'offsets': t[3]}),
)


def subchecks(tier):
    return [
        Sub('fp16', run_fp16, cases=fp16_cases, distinct_by_construction=True),
        Sub('rgb565', run_led, cases=led_cases, distinct_by_construction=True),
        Sub('rgb565-frames', run_led_frame, strategy=led_frame_strategy, examples={'quick': 120, 'thorough': 3000}),
        Sub('quat-lattice', run_quat, cases=quat_lattice, distinct_by_construction=True),
        Sub('quat-random', run_quat, strategy=quat_strategy, examples={'quick': 2000, 'thorough': 200000}),
        Sub('trajectory', run_traj, strategy=traj_strategy, examples={'quick': 3000, 'thorough': 200000}),
        Sub('streams', run_stream, strategy=stream_strategy, examples={'quick': 2000, 'thorough': 200000}),
    ]
